#!/bin/sh
# tools/sweep.sh <seed>... : every quick check on the unchanged tree under the given VERIF_SEEDs,
# evidence and replays redirected to a scratch directory (LSIM_OUT) so that /verif is not touched.
OUT="$(mktemp -d /tmp/lsim-sweep-XXXXXX)"
trap 'rm -rf "$OUT"' EXIT
for seed in "$@"; do
  for p in C03 C13 C14 C17 C20; do
    LSIM_OUT="$OUT" "$(dirname "$0")/../check" $p --tier quick --seed $seed 2>&1 | grep -E "^(VIOLATION|violation|HARNESS|C[0-9]+:)" | sed "s/^/seed $seed: /" | cut -c1-500
    if ls "$OUT"/replays/$p/*.json >/dev/null 2>&1; then mkdir -p /tmp/sweep-replays; cp "$OUT"/replays/$p/*.json /tmp/sweep-replays/ 2>/dev/null; fi
  done
done
