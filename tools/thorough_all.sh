#!/bin/sh
# tools/thorough_all.sh : every thorough check once on the unchanged tree, output redirected (LSIM_OUT)
OUT="$(mktemp -d /tmp/lsim-thorough-XXXXXX)"
trap 'rm -rf "$OUT"' EXIT
for p in C14 C20 C03 C17 C13; do
  LSIM_OUT="$OUT" "$(dirname "$0")/../check" $p --tier thorough 2>&1 | grep -E "^(VIOLATION|violation|HARNESS|KNOWN|C[0-9]+:)" | cut -c1-400
  python3 -c "
import json; d=json.load(open('$OUT/evidence/$p.json')); c=d['coverage']
print('$p', 'wall', d['wall_s'], 'runs', c['evaluations'], 'planned', c['batches_planned'], 'skipped', c['batches_skipped_by_wall_budget'], 'failed', c['batches_failed'], 'probes_at_zero', c['probes_at_zero'])"
done
