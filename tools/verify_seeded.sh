#!/bin/sh
# tools/verify_seeded.sh <seeded id> <property id>...   (TRY_ARGS="--tier thorough" optional)
# Confirms a seeded change in a scratch worktree of /repo (never in /repo): the demo passes on
# the unchanged tree, the patch applies, the pinned suite still passes, the demo fails with the
# patch; then runs the given checks against the patched copy. Removes the worktree afterwards.
set -u
ID="$1"; shift
DIR="/verif/seeded/$ID"
WT="$(mktemp -d /tmp/lsim-wt-XXXXXX)"; OUT="$(mktemp -d /tmp/lsim-out-XXXXXX)"; rmdir "$WT"
git -C /repo worktree add -q --detach "$WT" HEAD || exit 2
cleanup() { git -C /repo worktree remove --force "$WT" >/dev/null 2>&1; rm -rf "$OUT"; }
trap cleanup EXIT
( cd "$OUT" && timeout 900 /venv/bin/python "$DIR/demo.py" "$WT" >/dev/null 2>&1 ); echo "demo on unchanged tree: exit $? (want 0)"
git -C "$WT" apply "$DIR/patch.diff" || { echo "PATCH-DOES-NOT-APPLY"; exit 2; }
( cd "$WT" && /venv/bin/python -m pytest -q -p no:cacheprovider --timeout=900 --continue-on-collection-errors 2>&1 | tail -1 )
( cd "$OUT" && timeout 900 /venv/bin/python "$DIR/demo.py" "$WT" >/dev/null 2>&1 ); echo "demo on patched tree: exit $? (want 1)"
for id in "$@"; do
  LSIM_REPO="$WT" LSIM_OUT="$OUT" /verif/check "$id" ${TRY_ARGS:-} 2>&1 | grep -E "^(VIOLATION|KNOWN-FINDING|HARNESS|violation|C[0-9]+:)" | cut -c1-600
done
