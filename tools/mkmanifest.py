"""Regenerates /verif/MANIFEST.json from the tables below (run after changing a claim)."""
import json
import os

HERE = os.path.dirname(os.path.dirname(os.path.abspath(__file__)))

NA = {
 'C01': 'pure function of (program, facts) to rows: no schedule, clock, fault, crash point or history in the statement; deterministic simulation has nothing to decide (its meaning is used only as the oracle of C03/C14/C17 on a narrow fragment)',
 'C02': 'compile-time translation of aggregation/distinct/negation: a pure function over all programs, no interleaving or fault dimension',
 'C04': 'functor application is a pure rewrite of the rule list inside one compile; no state outlives the call',
 'C05': 'type inference is a pure function of the rule list; permuting rules is input permutation, not a schedule',
 'C06': 'equality of two pure functions over strings (Python and C++ parsers); nothing to schedule or fault',
 'C07': 'metamorphic invariance of a pure function; its only environment-chosen order (row arrival at aggregates) is decided under C20',
 'C08': 'plan annotations are inputs to one pure compile and one execution; no interleaving exists between plans',
 'C09': 'static well-scopedness of emitted SQL text',
 'C10': 'escaping is a per-character pure function and flag expansion a bounded loop over inputs',
 'C11': 'desugaring equivalences of a pure function',
 'C12': 'pure function of a file tree; reading imports is deterministic input (its hash-seed dependence is C13 and is exercised there)',
 'C15': 'pure function of the source text',
 'C16': 'algebraic laws of a unifier over a small enumerable term space: enumeration/model checking, not simulation',
 'C18': 'ORDER BY/LIMIT of a single statement, pure',
 'C19': 'negative behaviour of a pure function over a corruption catalogue',
}

PLANNED = {
 'C03': 'recsim', 'C13': 'histsim', 'C17': 'groundsim', 'C20': 'aggsim',
}

CLAIMS = {
 'C13': {
  'engine': 'histsim',
  'technique': 'deterministic simulation of a long-lived compiling process: seeded operation histories (parse, compile, reuse of rules and program objects, failing compiles, clock jumps, directory and environment changes; Python parser and C++ parser) in simulated processes (module-universe reset, confirmed by forks of a pristine zygote) under a chosen PYTHONHASHSEED, refinement against pristine processes under the same and under another hash seed; simulated clock',
  'text': 'Seeded search over operation histories x hash seeds x programs (the whole repository corpus, dealt out over the batches, and generated programs with functors, all recursion modes incl. DuckDB stop conditions, imports, typed dialects with functions and user-defined aggregations, experimental syntax and operators); a clean batch is evidence over the sampled histories and seeds, not a proof. Exploration is the right level: the property quantifies over all histories and all hash seeds.',
  'note': 'Trusted: fork() of a never-used zygote is a fresh process; the cheap process model (repository modules dropped and re-imported) is cross-validated against it once per batch and every disagreement is confirmed with real processes before it counts; only the exception type is compared for failing requests; histories under the C++ parser (LOGICA_PARSER=CPP, library built once per check run from the tree under test) run in real processes only and are compared with C++-mode references (the two parsers are not compared with each other: that is C06).',
  'design_ref': 'DESIGN.md sections 5 (C13) and 11.2',
 },
 'C17': {
  'engine': 'groundsim',
  'technique': 'deterministic simulation with fault injection: seeded histories of runs (script path, logica.py main incl. several predicates at once, run_in_terminal Run/RunMany), fact-version switches, tampering, crash/interrupt/disk-full faults, another client holding the write lock for a drawn number of statements, retained failed connections, simulated sleep, against one persistent SQLite file, every case in a simulated process of its own and every logica.py invocation in another; per-statement table reads/writes observed through the SQLite authorizer; oracle = reference evaluator plus ordering and atomicity invariants',
  'text': 'Seeded search over programs with grounded intermediates x histories of runs x fault positions (every abort position enumerated for a subset of histories); a clean batch is evidence over the sampled histories, not a proof. Exploration fits: the property quantifies over all programs and all run sequences.',
  'note': 'Trusted: lsim/ref.py, SQLite (incl. its statement rollback), the statement-boundary crash model (no torn pages: Python sqlite3 exposes no VFS hook). After an aborted run only atomicity is demanded; fault-free twins of every history run with no relaxation. Two fixed inputs (case-insensitive table names, column affinity of CREATE TABLE AS) are genuine unrepaired defects reported as KNOWN-FINDING (known_findings.json, DESIGN 11.6).',
  'design_ref': 'DESIGN.md sections 5 (C17) and 11',
 },
 'C20': {
  'engine': 'aggsim',
  'technique': 'deterministic simulation of arrival order: the real aggregate UDF objects are stepped by the simulator in enumerated/seeded permutations with interleaved groups; end to end, the simulator chooses the physical row order, index and UNION ALL order seen by SQLite; oracle = the documented definition of each built-in',
  'text': 'Seeded search over row multisets and arrival orders (all permutations for small groups) for the aggregates, and over small argument domains for the scalar built-ins; evidence over the sampled workloads, not a proof. Only the aggregate half of the property has a schedule to simulate; the scalar built-ins are pure functions checked as payload of the same runs.',
  'note': 'Trusted: the ~120-line table of defined meanings in lsim/aggsim.py (cells whose meaning the documentation does not fix for SQLite are excluded and listed in the evidence), SQLite, json.',
  'design_ref': 'DESIGN.md sections 5 (C20) and 11',
 },
 'C03': {
  'engine': 'recsim',
  'technique': 'deterministic simulation with fault injection: generated recursive programs run through the real compiler, Concertina and SQLite under seeded execution schedules (stale generation tables, aborted/failed then re-run, several predicates at once, functor copies, recursion through negation and aggregation); oracle = Jacobi T^(depth+1) and least fixpoint from an independent reference evaluator',
  'text': 'Seeded search over recursive programs x depths (both sides of the 20/21 switch to iterative execution) x execution schedules and fault positions; a clean batch is evidence over the sampled cases, not a proof. For depth <= 20 the result is a single SQL statement and the check is seeded differential testing against the reference model with no fault dimension; the simulation proper (stateful multi-step execution, persistent leftovers, engine faults) applies to iterative plans.',
  'note': 'Trusted: lsim/ref.py (bag-semantics evaluator written from docs/learn/logica.md), SQLite, the statement-boundary crash model. Vertically unfolded mutual recursion is checked by containment only, as the property states (non-monotone programs are skipped there); functors get their documented meaning by explicit copying in the reference. One fixed input (member names differing only in letter case) is a genuine unrepaired defect reported as KNOWN-FINDING.',
  'design_ref': 'DESIGN.md sections 5 (C03) and 11',
 },
 'C14': {
  'engine': 'concsim',
  'technique': 'deterministic simulation: (A) the real Concertina under a simulated engine, stop-signal file system, clock and display, every stop-signal instant and engine-error position of each plan enumerated; (P) the real ExecuteLogicaProgram/RenamePredicate plan assembly on abstract executions with a simulated sql_runner that fails or raises the stop signal at every call, the request repeated on fresh and on the very same execution objects; (B) compiled programs on real SQLite behind a fault-injecting, authorizer-observing connection proxy; constraint oracle plus a cyclic-queue reference model',
  'text': 'Seeded search over generated workflow plans, assembled plans and compiled programs, with every stop-signal instant and engine-error position of each small plan enumerated; a clean batch is evidence over the sampled plans and schedules, not a proof. Exploration is the right level: the property quantifies over all DAGs/placements/subsets, which can only be sampled.',
  'note': 'Trusted: the 30-line cyclic-queue model of an iteration group, the well-formedness rules of generated plans (stated in evidence.assumptions), lsim/ref.py and SQLite in layer B. The engine, file system, clock and IPython display are simulated in layer A; display_mode=colab (graphviz) is not run.',
  'design_ref': 'DESIGN.md sections 5 (C14) and 11',
 },
}

ENGINES = {
 'concsim': 'discrete-event simulation of the workflow executor (fake engine/fs/clock/display), plan assembly on abstract executions, compiled plans on fault-injecting SQLite',
 'groundsim': 'history simulation of runs against one persistent SQLite file with crash/abort points and stale state',
 'recsim': 'simulation of iterative recursion plans (executor + mutable generation tables) against a Jacobi/least-fixpoint reference',
 'histsim': 'simulation of a long-lived compiling process: operation histories x hash seeds x clock, refinement against pristine processes',
 'aggsim': 'arrival-order (schedule) simulation of aggregate UDF state machines, alone and through SQLite',
}


def main():
  checks = []
  for pid in sorted(CLAIMS):
    c = CLAIMS[pid]
    checks.append({
        'property_id': pid,
        'quick_cmd': './check %s --tier quick' % pid,
        'thorough_cmd': './check %s --tier thorough' % pid,
        'evidence_file': 'evidence/%s.json' % pid,
        'replay_cmd_template': './check %s --replay {path}' % pid,
        'engine': c['engine'],
        'level_claimed': {'category': 'exploration', 'text': c['text'], 'design_ref': c['design_ref']},
        'level_note': c['note'],
        'technique': c['technique'],
    })
  na = [{'property_id': k, 'reason': v} for k, v in NA.items()]
  for pid, eng in PLANNED.items():
    if pid not in CLAIMS:
      na.append({'property_id': pid,
                 'reason': 'claimed by design (engine %s) but that check is not built yet at this commit' % eng})
  na.sort(key=lambda x: x['property_id'])
  engines = []
  for name, kind in ENGINES.items():
    serves = [p for p, c in CLAIMS.items() if c['engine'] == name]
    if serves:
      engines.append({'name': name, 'path': 'lsim/%s.py' % name, 'serves_properties': serves,
                      'kind_free_text': kind})
  m = {
      'version': 1,
      'setup_cmd': '/venv/bin/python -c "import sys; sys.path.insert(0, \'/verif\'); import lsim.core, lsim.runner, sqlite3; print(\'lsim ready\', sys.version.split()[0], sqlite3.sqlite_version)"',
      'hooks': {
          'guard': 'EVGSKV_LOGICA_VERIF',
          'enable': 'no hooks needed: every seam is a function argument or a module attribute replaced from outside (concertina_lib.os/open/datetime, sqlite3_logica.SqliteConnect, recursion_library.time); checks import the /repo working tree by path',
          'baseline_off_cmd': 'cd /repo && /venv/bin/python -m pytest -ra -q -p no:cacheprovider --timeout=900 --continue-on-collection-errors',
          'source_commits': [],
          'add_only': True},
      'engines': engines,
      'checks': checks,
      'not_applicable': na,
      'notes': 'Technique: deterministic simulation with fault injection (seeded search over workloads, schedules and fault sequences; see DESIGN.md). `./check selftest` runs determinism/sensitivity/calibration self-tests. Genuine defects repaired in /repo are recorded in known_findings.json as fixed: entries. Exit codes: 0 held, 1 VIOLATION (replayed in a fresh interpreter first), 2 harness error.',
  }
  with open(os.path.join(HERE, 'MANIFEST.json'), 'w') as f:
    json.dump(m, f, indent=1)
    f.write('\n')


if __name__ == '__main__':
  main()
