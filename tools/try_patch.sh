#!/bin/sh
# tools/try_patch.sh <patch.diff> <property id>... [-- extra check args]
# Applies a patch to a scratch worktree of /repo (never to /repo), runs the pinned test
# suite there, then the given checks pointed at the copy; removes the worktree afterwards.
set -u
PATCH="$(readlink -f "$1")"; shift
WT="$(mktemp -d /tmp/lsim-wt-XXXXXX)"
OUT="$(mktemp -d /tmp/lsim-out-XXXXXX)"
rmdir "$WT"
git -C /repo worktree add -q --detach "$WT" HEAD || exit 2
cleanup() { git -C /repo worktree remove --force "$WT" >/dev/null 2>&1; rm -rf "$OUT"; }
trap cleanup EXIT
git -C "$WT" apply "$PATCH" || { echo "PATCH-DOES-NOT-APPLY"; exit 2; }
( cd "$WT" && /venv/bin/python -m pytest -q -p no:cacheprovider --timeout=900 --continue-on-collection-errors 2>&1 | tail -1 )
rc=0
for id in "$@"; do
  LSIM_REPO="$WT" LSIM_OUT="$OUT" /verif/check "$id" ${TRY_ARGS:-} 2>&1 | grep -E "^(VIOLATION|KNOWN-FINDING|HARNESS|violation|C[0-9]+:)" | cut -c1-400
done
