"""C13 - compilation is a deterministic, history-free function of the program.

The simulated system is the COMPILING PROCESS as a long-lived node (a notebook kernel,
a test runner): it parses and compiles many programs one after another, under some
Python hash seed, reading some clock.  One run = one history of operations executed
in one simulated process (a fork of a pristine "zygote" interpreter that has imported
the compiler and done nothing else).  Every compile result is compared with the
result of the same request in a PRISTINE process under the same hash seed (decides the
history clause) and in a pristine process under a DIFFERENT hash seed (a second
interpreter, decides the hash-seed clause).  The clock (recursion_library.time) is
simulated.
"""
import glob
import json
import os
import re
import select
import signal
import subprocess
import sys
import time as real_time

from lsim import core
from lsim import gen
from lsim import minimise

PROPERTY = 'C13'
NONPROGRAM_OPS = ('clock', 'chdir', 'setenv')
T0 = 1700000000.123456
INCANTATION = 'Signa inter verba conjugo, symbolum infixus evoco!'
STOP_RE = re.compile(r'logical_stop_\d+_')


# ------------------------------------------------------------------ the simulated process

class Clock(object):
  def __init__(self):
    self.now = T0
    self.moved = False

  def time(self):
    return self.now


_env = None
_ORIG = {}
SHARED_FLAGS = {}      # per simulated process: share group -> the caller's flags dict


def env():
  """Imports the compiler (nothing is parsed or compiled) and takes the clock seam."""
  global _env
  if _env is None:
    import contextlib
    import io
    core.import_repo()
    os.environ.pop('LOGICA_PARSER', None)
    with contextlib.redirect_stdout(io.StringIO()):
      from parser_py import parse
      from compiler import universe, functors, rule_translate, expr_translate
      from compiler.dialect_libraries import recursion_library
      from type_inference.research import infer
      from common import concertina_lib
    clock = Clock()
    recursion_library.time = clock
    if not _ORIG:
      _ORIG['cwd'] = os.getcwd()
      _ORIG['environ'] = dict(os.environ)
    _env = {'parse': parse, 'universe': universe, 'functors': functors,
            'rule_translate': rule_translate, 'infer': infer, 'clock': clock,
            'expr_translate': expr_translate, 'recursion_library': recursion_library,
            'concertina_lib': concertina_lib}
  return _env


def reset_universe():
  """The cheap model of a fresh process: every module of the repository is dropped from
  sys.modules and imported again (fresh module globals, fresh class-level tables, fresh
  clock).  What it does not reset is state kept outside the repository's modules; every
  disagreement seen under this model is therefore re-examined with real processes
  (fork of a never-used zygote) before it counts."""
  global _env
  import importlib
  if _ORIG:
    # a fresh process starts in the original directory with the original environment
    os.chdir(_ORIG['cwd'])
    for k in list(os.environ):
      if k not in _ORIG['environ']:
        del os.environ[k]
    os.environ.update(_ORIG['environ'])
  doomed = []
  for name, mod in list(sys.modules.items()):
    f = getattr(mod, '__file__', None)
    try:
      paths = [str(x) for x in (getattr(mod, '__path__', None) or [])]
    except Exception:
      paths = []
    if (f and f.startswith(core.REPO + os.sep)) or any(x.startswith(core.REPO) for x in paths):
      doomed.append(name)
  for name in doomed:
    del sys.modules[name]
  importlib.invalidate_caches()
  _env = None
  SHARED_FLAGS.clear()
  return env()


def snapshot_execution(sql, e):
  return {'sql': sql, 'preamble': e.preamble, 'defines': list(e.defines_and_exports),
          'main': e.main_predicate_sql,
          'export': {k: v for k, v in e.table_to_export_map.items()},
          'dep': sorted(set(tuple(x) for x in e.dependency_edges)),
          'data': sorted(set(tuple(x) for x in e.data_dependency_edges)),
          'iterations': {k: dict(v) for k, v in e.iterations.items()},
          # what ExecuteLogicaProgram puts in front of every statement of this execution
          'stmt_preamble': specific_preamble(e)}


def specific_preamble(e):
  try:
    return e.PredicateSpecificPreamble(e.main_predicate)
  except Exception as x:      # e.g. dependencies not computed for this kind of request
    return 'n/a: ' + type(x).__name__


def do_parse(req):
  E = env()
  old = os.getcwd()
  os.chdir(req.get('cwd') or old)
  try:
    return E['parse'].ParseFile(req['main'], import_root=req.get('root'))['rule']
  finally:
    os.chdir(old)


def do_compile(req, pred, rules=None, program=None):
  """Returns (result dict, rules, program). Exceptions of the pipeline become results."""
  E = env()
  try:
    if program is None:
      if rules is None:
        rules = do_parse(req)
      flags = req.get('flags') or None
      if flags and req.get('share_flags'):
        # the caller keeps ONE dict of flags and hands it to every program it compiles
        flags = SHARED_FLAGS.setdefault(req['share_flags'], dict(flags))
      program = E['universe'].LogicaProgram(rules, user_flags=flags)
    sql = program.FormattedPredicateSql(pred)
    return snapshot_execution(sql, program.execution), rules, program
  except (E['parse'].ParsingException, E['rule_translate'].RuleCompileException,
          E['functors'].FunctorError, E['infer'].TypeErrorCaughtException) as e:
    return {'error': type(e).__name__, 'message': str(e)[:500]}, rules, program
  except Exception as e:   # not one of the four diagnostics: still a result of the function
    return {'error': 'crash:' + type(e).__name__, 'message': str(e)[:500]}, rules, program


def global_state_fingerprint():
  E = env()
  ql = E['expr_translate'].QL
  return [E['parse'].TOO_MUCH, bool(getattr(ql, 'BULK_FUNCTIONS', None)),
          E['concertina_lib'].Concertina.DISPLAY_COUNT]


def cpp_cache_dir(scratch=None):
  """Where the shared library of the C++ parser lives for this check run: a directory made
  (and removed) by the parent, or a directory inside the caller's scratch."""
  d = os.environ.get('LSIM_SHARED')
  if d and os.path.isdir(d):
    return os.path.join(d, 'cppcache')
  return os.path.join(scratch, 'cppcache') if scratch else None


def ensure_cpp_parser(cache):
  """Builds liblogica_parse_cpp.so from the tree under test into `cache` (g++, ~10 s, once per
  check run) in a separate interpreter, never in a simulated process. Returns '' or the reason
  it is unavailable."""
  if not cache:
    return 'no cache directory'
  code = ('import sys; sys.path.insert(0, %r); from parser_cpp import logica_parse_cpp as m; '
          'print(m.EnsureCppParserSharedObject())' % core.REPO)
  try:
    p = subprocess.run([core.PY, '-c', code], env=core.child_env(0, {'XDG_CACHE_HOME': cache}),
                       stdout=subprocess.PIPE, stderr=subprocess.PIPE, text=True, timeout=600)
  except Exception as e:
    return '%s: %s' % (type(e).__name__, e)
  if p.returncode != 0 or not os.path.isfile(p.stdout.strip()):
    return 'build failed: ' + p.stderr[-400:]
  return ''


def prepare(shared, tier):
  """Called once by the parent before the batches start."""
  return ensure_cpp_parser(os.path.join(shared, 'cppcache'))


def apply_parser_mode(job):
  """Selects the parser of the simulated process. Only ever called in a process that is
  about to run exactly one job and exit (a fork of a pristine zygote): the C++ library keeps
  its own globals, which no reset of Python modules could clear."""
  if job.get('parser') == 'CPP':
    os.environ['LOGICA_PARSER'] = 'CPP'
    os.environ['XDG_CACHE_HOME'] = job['cpp_cache']


def run_history_here(case):
  """Executes the operations of `case` in THIS process. Returns list of op records."""
  E = env()
  clock = E['clock']
  programs = case['programs']
  parsed = {}
  out = []
  for op in case['ops']:
    kind = op[0]
    if kind == 'clock':
      clock.now += op[1]
      clock.moved = True
      out.append({'op': op})
      continue
    if kind == 'chdir':
      os.chdir(case['dirs'][op[1]])
      out.append({'op': op})
      continue
    if kind == 'setenv':
      os.environ[op[1]] = op[2]
      out.append({'op': op})
      continue
    req = programs[op[1]]
    if kind == 'parse':
      try:
        parsed[op[1]] = do_parse(req)
        out.append({'op': op, 'parsed': True})
      except Exception as e:
        out.append({'op': op, 'parsed': False, 'error': type(e).__name__})
      continue
    if kind == 'compile':
      res, rules, _ = do_compile(req, op[2])
      if rules is not None:
        parsed[op[1]] = rules
      out.append({'op': op, 'result': res, 'clock_moved': clock.moved, 'request': [op[1], op[2]]})
    elif kind == 'compile_reuse':
      res, rules, _ = do_compile(req, op[2], rules=parsed.get(op[1]))
      if rules is not None:
        parsed[op[1]] = rules
      out.append({'op': op, 'result': res, 'clock_moved': clock.moved, 'request': [op[1], op[2]],
                  'reused': op[1] in parsed})
    elif kind == 'sql_again':
      res1, rules, program = do_compile(req, op[2], rules=parsed.get(op[1]))
      out.append({'op': op, 'result': res1, 'clock_moved': clock.moved, 'request': [op[1], op[2]]})
      # also after a failed first request: the caller caught the diagnostic and goes on using
      # the program object
      if program is not None:
        res2, _, _ = do_compile(req, op[3], program=program)
        out.append({'op': op, 'result': res2, 'clock_moved': clock.moved, 'request': [op[1], op[3]],
                    'second_on_same_program': True})
  return {'records': out, 'state': global_state_fingerprint()}


def in_fork(fn, timeout=300):
  """Runs fn() in a forked child (a pristine copy of this process); returns its JSON-able result."""
  rfd, wfd = os.pipe()
  sys.stdout.flush()
  pid = os.fork()
  if pid == 0:
    code = 0
    try:
      os.close(rfd)
      signal.alarm(timeout)
      try:
        data = json.dumps({'ok': fn()})
      except BaseException as e:
        import traceback
        data = json.dumps({'harness_error': '%s: %s\n%s' % (type(e).__name__, e, traceback.format_exc()[-1500:])})
      with os.fdopen(wfd, 'w') as w:
        w.write(data)
    except BaseException:
      code = 1
    os._exit(code)
  os.close(wfd)
  chunks = []
  with os.fdopen(rfd, 'r') as rd:
    chunks.append(rd.read())
  os.waitpid(pid, 0)
  data = ''.join(chunks)
  if not data:
    raise RuntimeError('forked child produced no output (killed or timed out)')
  j = json.loads(data)
  if 'harness_error' in j:
    raise RuntimeError('forked child failed: ' + j['harness_error'])
  return j['ok']


# ------------------------------------------------------------------ reference server

class Server(object):
  """A separate interpreter with its own PYTHONHASHSEED answering requests.

  mode 'fork' : the server never parses or compiles anything itself; every request runs
                in a fork of that pristine zygote (a real fresh process image).
  mode 'reset': the server resets its module universe before every request (cheap)."""

  def __init__(self, hashseed, mode):
    self.hashseed = hashseed
    self.mode = mode
    extra = None
    if sys.pycache_prefix:
      # bytecode of the repository under the worker's scratch directory, never in the repository
      extra = {'PYTHONPYCACHEPREFIX': sys.pycache_prefix, 'PYTHONDONTWRITEBYTECODE': ''}
    self.p = subprocess.Popen(
        [core.PY, os.path.join(core.VERIF, 'lsim', 'refserver.py'), mode],
        env=core.child_env(hashseed, extra), stdin=subprocess.PIPE, stdout=subprocess.PIPE,
        stderr=subprocess.PIPE, text=True, bufsize=1)

  def ask(self, job):
    self.p.stdin.write(json.dumps(job) + '\n')
    self.p.stdin.flush()
    line = self.p.stdout.readline()
    if not line:
      raise RuntimeError('server (%s, hashseed %s) died: %s' % (
          self.mode, self.hashseed, self.p.stderr.read()[-2000:]))
    j = json.loads(line)
    if 'harness_error' in j:
      raise RuntimeError('server failed: ' + j['harness_error'])
    return j['ok']

  def compile(self, req, pred):
    return self.ask({'kind': 'compile', 'req': req, 'pred': pred})

  def history(self, case):
    return self.ask({'kind': 'history', 'case': case})

  def close(self):
    try:
      self.p.stdin.close()
      self.p.wait(timeout=20)
    except Exception:
      self.p.kill()


def serve_job(j):
  apply_parser_mode(j if j['kind'] == 'compile' else j['case'])
  if j['kind'] == 'compile':
    return do_compile(j['req'], j['pred'])[0]
  return run_history_here(j['case'])


def refserver_main(mode):
  env()
  real_out = sys.stdout
  sys.stdout = open(os.devnull, 'w')
  for line in sys.stdin:
    if not line.strip():
      continue
    j = json.loads(line)
    try:
      if mode == 'fork':
        res = in_fork(lambda: serve_job(j))
      else:
        reset_universe()
        res = serve_job(j)
      out = {'ok': res}
    except BaseException as e:
      out = {'harness_error': '%s: %s' % (type(e).__name__, e)}
    real_out.write(json.dumps(out) + '\n')
    real_out.flush()


class Procs(object):
  """The processes of one batch / replay: who computes what, under which hash seed."""

  def __init__(self, hashseed, ref_hashseed, local_is_pristine_zygote):
    self.hashseed = hashseed
    self.ref_hashseed = ref_hashseed
    self.local_zygote = local_is_pristine_zygote
    self.servers = {}
    self.forks = 0
    self.resets = 0

  def server(self, which, mode):
    k = (which, mode)
    if k not in self.servers:
      self.servers[k] = Server(self.hashseed if which == 'same' else self.ref_hashseed, mode)
    return self.servers[k]

  def run(self, which, mode, job):
    """which: 'same' | 'other' hash seed; mode: 'fork' | 'reset'."""
    if mode == 'fork':
      self.forks += 1
    else:
      self.resets += 1
    parser = (job if job['kind'] == 'compile' else job['case']).get('parser')
    if parser == 'CPP' and mode != 'fork':
      raise RuntimeError('the C++ parser is only ever run in real processes')
    if which == 'same' and mode == 'reset':
      reset_universe()
      # the simulated process gets its own copy of the request (as the real ones do through the
      # pipe): whatever it does to the caller's lists and dicts must not outlive it
      return json.loads(json.dumps(serve_job(json.loads(json.dumps(job)))))
    if which == 'same' and mode == 'fork' and self.local_zygote:
      return in_fork(lambda: serve_job(job))
    return self.server(which, mode).ask(job)

  def close(self):
    for sv in self.servers.values():
      sv.close()


# ------------------------------------------------------------------ workload: programs

def corpus_files():
  old = os.getcwd()
  os.chdir(core.REPO)
  try:
    return sorted(glob.glob('integration_tests/*.l') + glob.glob('integration_tests/*/*.l') +
                  glob.glob('integration_tests/*/*/*.l') +
                  glob.glob('type_inference/research/integration_tests/*.l'))
  finally:
    os.chdir(old)


def corpus_requests(files):
  """(file, text, predicates) of the given .l programs of the repository; parsed in a
  fork so that the zygote stays pristine. Files that do not parse on their own are skipped."""
  def work():
    E = env()
    old = os.getcwd()
    os.chdir(core.REPO)
    out = []
    try:
      for f in files:
        text = open(f).read()
        try:
          rules = E['parse'].ParseFile(text)['rule']
        except BaseException:
          continue
        preds = []
        for r_ in rules:
          p = r_['head']['predicate_name']
          if p[0] != '@' and p not in preds and '_' not in p and p != '++?':
            preds.append(p)
        if preds:
          out.append([f, text, preds[-3:]])
    finally:
      os.chdir(old)
    return out
  reset_universe()
  return work()


ENGINES = ['sqlite', 'sqlite', 'psql', 'duckdb', 'bigquery']


def engine_line(r, eng):
  """SQLite programs sometimes switch the type checker on (it is off by default there and on
  for psql / duckdb): the checker then runs over the SQLite library too."""
  if eng == 'sqlite' and r.random() < 0.35:
    return '@Engine("sqlite", type_checking: true);\n'
  return '@Engine("%s");\n' % eng


def gen_request(r, scratch, idx, kind=None):
  """A generated program (files on disk under scratch) and its compilable predicates."""
  kind = kind or r.choice(['nonrec', 'nonrec', 'rec', 'rec', 'functor', 'imports', 'imports', 'incant',
                   'needs_incant', 'bad', 'flags', 'dialect_rec', 'typed', 'typed', 'attach_rel',
                   'combine', 'combine', 'duck_stop', 'duck_stop', 'udf', 'udf', 'misc', 'misc', 'two_agg_rec'])
  root = None
  flags = None
  bad = False
  more_mains = []
  if kind == 'nonrec':
    p = gen.gen_nonrecursive(r, plain_names=r.random() < 0.5)
    eng = r.choice(ENGINES)
    if r.random() < 0.4:
      # the same predicate names are grounded in some programs of the pool and plain in others
      names = gen.idb_names(p)
      p['ground'] = sorted(set(r.sample(names, min(len(names), r.choice([1, 2])))))
    text = engine_line(r, eng) + gen.render(p, engine_line=False)
    preds = gen.idb_names(p)
  elif kind in ('rec', 'dialect_rec'):
    p, family, main = gen.gen_recursive(r)
    eng = 'sqlite' if kind == 'rec' else r.choice(['duckdb', 'psql', 'bigquery', 'duckdb'])
    extra = ''
    if eng == 'duckdb' and p['recursive'] and r.random() < 0.5:
      name = sorted(p['recursive'])[0]
      d = p['recursive'][name]
      d = d if isinstance(d, int) else d['depth']
      p = dict(p, recursive={})
      mode = r.choice(['', ', iterative: true', ', mode: "iterative"', ', mode: "diamond"'])
      extra = '@Recursive(%s, %d%s);\n' % (name, r.choice([d, -1]) if 'diamond' in mode else d, mode)
    text = engine_line(r, eng) + extra + gen.render(p, engine_line=False)
    preds = gen.idb_names(p)
  elif kind == 'two_agg_rec':
    # two separate, iteratively unfolded recursive components, every member of which aggregates
    # over several rule bodies (the parser gives each an auxiliary predicate); the compiled
    # predicate reads one member of each, so each iteration has members nobody asked for
    eng = r.choice(['sqlite', 'sqlite', 'psql', 'duckdb'])
    n1, n2 = r.sample(['Dist', 'Hop', 'Far', 'Near', 'Cost', 'Rank', 'Zed', 'Alt', 'Way', 'Leg'], 2)
    lines = ['@Engine("%s");' % eng]
    body = []
    for nm, dep_ in ((n1, r.choice([21, 24, 30])), (n2, r.choice([22, 25, 30, 8]))):
      lines.append('@Recursive(%sA, %d%s);' % (nm, dep_, ', iterative: true' if dep_ <= 20 else ''))
      body.append(' '.join('E%s(%d, %d);' % (nm, i, i + 1) for i in range(r.randint(3, 6))))
      body.append('%sA(0) Min= 0;' % nm)
      body.append('%sA(y) Min= d + 1 :- d == %sB(x), E%s(x, y);' % (nm, nm, nm))
      body.append('%sB(y) Min= d + 1 :- d == %sA(x), E%s(x, y);' % (nm, nm, nm))
      body.append('%sB(100) Min= 0;' % nm)
    body.append('T(x, a, b) :- a == %sA(x), b == %sA(x);' % (n1, n2))
    r.shuffle(body)
    text = '\n'.join(lines + body) + '\n'
    preds = ['T', n1 + 'A', n2 + 'B']
  elif kind == 'misc':
    # a spread of everyday features in one program: plan annotations, if-then-else, records,
    # lists, negation, several-body aggregation, string building, ArgMax, `in`
    eng = r.choice(['sqlite', 'sqlite', 'psql', 'duckdb', 'bigquery'])
    names = r.sample(['apple', 'pear', 'fig', 'kiwi', 'plum', 'lime', 'date', 'yam'], 4)
    nums = [r.randint(1, 6) for _ in names]
    P = dict(zip(['Item', 'Helper', 'Plain', 'Ranked', 'Size3', 'Rec', 'Names', 'Total', 'NoBig', 'Pairs', 'Cat',
                  'InList', 'Best', 'Impl'],
                 r.sample(['Item', 'Helper', 'Plain', 'Ranked', 'Size3', 'Rec', 'Names', 'Total', 'NoBig', 'Pairs',
                           'Cat', 'InList', 'Best', 'Impl', 'Alpha', 'Beta', 'Gamma', 'Delta', 'Kappa', 'Omega',
                           'Sales_q1', 'Node7'], 14)))
    ann = []
    if r.random() < 0.7:
      ann.append('@OrderBy(%(Ranked)s, "col1 desc", "col0");\n@Limit(%(Ranked)s, %%d);' % P % r.randint(1, 4))
    ann.append(r.choice(['@With(%(Helper)s);', '@NoWith(%(Helper)s);', '']) % P)
    ann.append(r.choice(['@NoInject(%(Plain)s);', '']) % P)
    if r.random() < 0.3:
      ann.append('@Ground(%(Helper)s);' % P)
    facts = ' '.join('%s("%s", %d);' % (P['Item'], a, b) for a, b in zip(names, nums))
    body = ('%(Helper)s(name, n * 2) :- %(Item)s(name, n);\n'
            '%(Plain)s(name) :- %(Item)s(name, n), n > 1;\n'
            '%(Ranked)s(name, n) :- %(Helper)s(name, n), %(Plain)s(name);\n'
            '%(Size3)s(name, (if n > 4 then "big" else if n > 2 then "mid" else "small")) :- %(Item)s(name, n);\n'
            '%(Rec)s(r: {name:, n:}) :- %(Item)s(name, n);\n'
            '%(Names)s() List= name :- %(Item)s(name, n);\n'
            '%(Total)s(kind) += n :- %(Size3)s(name, kind), %(Item)s(name, n);\n'
            '%(Total)s("all") += n :- %(Item)s(name, n);\n'
            '%(NoBig)s(name) :- %(Item)s(name, n), ~%(Size3)s(name, "big");\n'
            '%(Pairs)s(a, b) :- %(Item)s(a, x), %(Item)s(b, y), x < y, a != b;\n'
            '%(Cat)s(name ++ "-" ++ ToString(n)) :- %(Item)s(name, n);\n'
            '%(InList)s(name) :- %(Item)s(name, n), n in [1, 3, 7];\n'
            '%(Best)s() ArgMax= name -> n :- %(Item)s(name, n), name != "kiwi";\n'
            '%(Impl)s(name, v) :- %(Item)s(name, n), v == (if n == 5 then 1 else 0);\n') % P
    lines_ = body.strip().split('\n')
    r.shuffle(lines_)
    text = '@Engine("%s");\n' % eng + '\n'.join(a for a in ann if a) + '\n' + facts + '\n' + '\n'.join(lines_) + '\n'
    preds = r.sample([P[k] for k in P if k != 'Item'], 5)
  elif kind == 'udf':
    # typed dialects: compiled functions (-->) and user-defined aggregations over semigroups
    eng = r.choice(['psql', 'psql', 'psql', 'duckdb', 'bigquery'])
    names = r.sample(['S', 'Glue', 'Mix', 'Cat', 'Plus', 'Zip', 'W'], r.choice([2, 3, 3, 4]))
    lines = ['@Engine("%s");' % eng, 'F(x) --> %d * x;' % r.randint(2, 5),
             'H(x, y) --> x + y * %d;' % r.randint(2, 5)]
    cols = []
    if eng == 'psql':
      for i, nm in enumerate(names):
        sep = r.choice([':', '+', '-', '/'])
        lines.append('%s(a, b) --> (if a is null then b else a ++ "%s" ++ b);' % (nm, sep))
        lines.append('@BareAggregation(Bare%s, semigroup: %s);' % (nm, nm))
        lines.append('Agg%s(x) = a :- a = Bare%s(x), a ~ %s();' % (nm, nm, nm))
        cols.append('Agg%s{ c :- c in [ToString(i), "%s"] }' % (nm, 'abcd'[i]))
    lines.append('Test(i, F(i), H(i, 2)%s) :- i in Range(3);' % ''.join(', ' + c for c in cols))
    lines.append('Other(H(F(i), i)) :- i in Range(2);')
    # an aggregating predicate read by others (compiled as a WITH table), beside the functions,
    # which can be asked for by name too
    lines.append('Cnt(x) += 1 :- i in Range(5), x == i % 2;')
    lines.append('Tally(x, c, F(c)) :- x in Range(2), c == Cnt(x);')
    lines.append('Both(x, c + d) :- Tally(x, c, d);')
    text = '\n'.join(lines) + '\n'
    preds = r.sample(['Test', 'Other', 'F', 'H', 'Tally', 'Both'], 4)
  elif kind == 'duck_stop':
    # DuckDB: one to three recursive components (independent or stacked), each run to a stop
    # condition or to a depth, in the default (diamond) or the iterative mode
    names = r.sample(['A', 'B', 'Reach', 'Dist', 'N', 'Walk', 'Zed', 'Q', 'Kite', 'M'], r.choice([1, 2, 2, 3]))
    lines = ['@Engine("duckdb");']
    body = []
    prev = None
    for i, nm in enumerate(names):
      bound = r.randint(3, 9)
      step = r.choice([1, 2])
      depth = r.choice([-1, -1, 5, 30])
      stop = r.random() < 0.75
      mode = r.choice(['', '', ', mode: "diamond"', ', mode: "iterative"'])
      lines.append('@Recursive(%s, %d%s%s);' % (nm, depth, ', stop: Stop%s' % nm if stop else '', mode))
      if prev and r.random() < 0.4:
        body.append('%s(x) distinct :- %s(x), x < 2;' % (nm, prev))      # stacked on the previous component
      else:
        body.append('%s(0) distinct;' % nm)
      body.append('%s(x + %d) distinct :- %s(x), x < %d;' % (nm, step, nm, bound))
      if stop:
        body.append('Stop%s() :- %s(x), x >= %d;' % (nm, nm, bound))
      prev = nm
    if r.random() < 0.4:
      # a component whose rows are records with named fields (their type is rendered as a sample
      # literal to seed the component's tables), run until its contents stop changing
      f = r.sample('abcdefghkmnpqrstuvwxyz', 3)
      nm = r.choice(['TC', 'Path', 'Link'])
      lines.append('@Recursive(%s, %d, stop: Halt%s);' % (nm, r.choice([-1, 1000, 40]), nm))
      body.append('G(1, 2); G(2, 3); G(3, 1); G(3, 4);')
      body.append('%s(%s: a, %s: b, %s: 1) distinct :- G(a, b);' % (nm, f[0], f[1], f[2]))
      body.append('%s(%s: a, %s: c, %s: n + 1) distinct :- %s(%s: a, %s: b, %s: n), G(b, c), n < 6;' % (
          nm, f[0], f[1], f[2], nm, f[0], f[1], f[2]))
      body.append('Prev%s() Array= r -> r :- %s(..r), r ~ {%s: Num, %s: Num, %s: Num};' % (nm, nm, f[0], f[1], f[2]))
      body.append('Halt%s() :- Array{ r -> r :- %s(..r) } == Prev%s();' % (nm, nm, nm))
      body.append('Rec() Max= 1 :- %s(%s:, %s:);' % (nm, f[0], f[1]))
      names = names + [None]
    if len([n_ for n_ in names if n_]) > 1:
      names = [n_ for n_ in names if n_]
      body.append('T(%s) :- %s;' % (', '.join('x%d' % i for i in range(len(names))),
                                    ', '.join('%s(x%d)' % (nm, i) for i, nm in enumerate(names))))
    else:
      has_rec = None in names
      names = [n_ for n_ in names if n_]
      body.append('T(x) :- %s(x);' % names[0])
      if has_rec:
        names = names + [None]
    has_rec = None in names or any('Rec()' in b for b in body)
    names = [n_ for n_ in names if n_]
    r.shuffle(body)
    text = '\n'.join(lines + body) + '\n'
    preds = (['Rec'] if has_rec else []) + ['T'] + names[:2]
  elif kind == 'typed':
    # typed dialect with several record types whose descriptions are equally long, so that
    # nothing but an explicit tie-break fixes the order of their CREATE TYPE statements
    letters = r.sample('abcdefghijklmnopqrstuvwxyz', 8)
    eng = r.choice(['psql', 'psql', 'duckdb'])
    f = letters
    text = ('@Engine("%s");\n' % eng +
            'D(a: 1, b: "x", c: 2);\nD(a: 2, b: "y", c: 3);\n'
            'T1(r: {%s: a, %s: b}) :- D(a:, b:);\n' % (f[0], f[1]) +
            'T2(r: {%s: a, %s: b}) :- D(a:, b:);\n' % (f[2], f[3]) +
            'T3(k: a, s? List= {%s: c, %s: b}) distinct :- D(a:, b:, c:);\n' % (f[4], f[5]) +
            'T4(m? ArgMin= b -> a) distinct :- D(a:, b:);\n'
            'T7(k: a, m? ArgMax= l -> a) distinct :- D(a:, b:), l == [a, a + 1];\n'
            'Inner(x) = r.%s :- r == {%s: x, %s: 1};\n' % (f[6], f[6], f[7]) +
            'T8(Inner(a)) :- D(a:, b:);\n'
            'T9(Inner(b), FlagValue("no_such_flag")) :- D(a:, b:);\n'      # Inner at another argument type
            'T5(x: r.%s, y: s) :- T1(r:), T3(k: x0, s:), x0 == r.%s;\n' % (f[0], f[0]) +
            'T6(t: {%s: a, %s: {%s: b}}) :- D(a:, b:);\n' % (f[6], f[7], f[0]))
    preds = ['T8', 'T9'] + r.sample(['T1', 'T2', 'T3', 'T4', 'T5', 'T6', 'T7'], 3)
    r.shuffle(preds)
  elif kind == 'functor':
    n = r.randint(1, 4)
    lines = ['@Engine("%s");' % r.choice(ENGINES), 'A(1); A(2); B(3); B(5);',
             'F(x) :- In(x), x > 1;', 'G(x + 1) :- F(x);']
    prev = 'A'
    preds = []
    for i in range(n):
      name = 'M%d' % i
      lines.append('%s := %s(In: %s);' % (name, r.choice(['F', 'G']), r.choice([prev, 'A', 'B'])))
      prev = name
      preds.append(name)
    text = '\n'.join(lines) + '\n'
  elif kind == 'imports':
    root = os.path.join(scratch, 'imp%d' % idx)
    text, preds, more_mains = gen_import_tree(r, root)
    if more_mains == 'two_roots':
      more_mains = []
      root = [os.path.join(root, 'R0'), os.path.join(root, 'R1')]      # the caller's list of roots
  elif kind == 'incant' and r.random() < 0.5:
    # the experimental syntax in use: several user-defined infix operators mixed in one
    # expression without parentheses (their relative precedence is part of the parse)
    ops = r.sample(['---', '-+-', '-*-', '-/-', '-%-', '-^-', '\u25C7', '\u2295', '\u2297'], r.choice([2, 3, 3, 4]))
    bodies = ['left * 10 + right', 'left + right', 'left * right', 'left - right', '2 * left + right',
              'left * left + right']
    lines = ['@Engine("sqlite");', '# %s' % INCANTATION]
    for o in ops:
      lines.append('`%s`(left:, right:) = %s;' % (o, r.choice(bodies)))
    def expr(n):
      e = r.choice(['x', '1', '2'])
      for _ in range(n):
        e = '%s %s %s' % (e, r.choice(ops), r.choice(['x', '2', '3', '5']))
      return e
    lines.append('T(%s) :- x in [1, 2, 3];' % expr(r.choice([2, 3])))
    lines.append('U(%s, %s) :- x in [4, 7];' % (expr(2), expr(1)))
    text = '\n'.join(lines) + '\n'
    preds = ['T', 'U']
  elif kind == 'incant':
    p = gen.gen_nonrecursive(r, n_idb=2)
    where = r.choice(['comment', 'top'])
    head = '# %s\n' % INCANTATION
    text = '@Engine("sqlite");\n' + head + gen.render(p, engine_line=False)
    preds = gen.idb_names(p)
  elif kind == 'needs_incant':
    # valid only with the experimental syntax switched on; a parse error otherwise
    text = '@Engine("sqlite");\n`---`(left:, right:) = left * 10 + right;\nT(1 --- 2);\nU(x) :- T(x);\n'
    preds = ['T', 'U']
  elif kind == 'combine':
    # aggregating expressions (combines) with their own variables, nested through functions,
    # shared between several predicates of one program
    a, b, c = r.randint(1, 9), r.randint(1, 9), r.randint(2, 5)
    eng = r.choice(['sqlite', 'sqlite', 'psql', 'duckdb'])
    text = ('@Engine("%s");\n' % eng +
            'A(t) = Sum{ y :- y in [t, %d] };\n' % a +
            'B(x) = Sum{ A(y) + y :- y in [x, %d] };\n' % b +
            'L(x) = List{ z * %d :- z in [x, 2, 3] };\n' % c +
            'D(1); D(2); D(%d);\n' % c +
            'PA(A(1));\nPB(B(2));\nPL(x, L(x)) :- D(x);\n'
            'PC(x, s) :- D(x), s += (v + x :- v in [x, %d]);\n' % a +
            'PN(x, m) :- D(x), m Max= (A(w) :- w in [x, %d]);\n' % b)
    preds = r.sample(['PA', 'PB', 'PL', 'PC', 'PN'], 4)
  elif kind == 'attach_rel':
    # a database attached by a relative file name: the SQL must carry exactly that name
    text = ('@Engine("sqlite");\n@AttachDatabase("logica_home", "people.db");\n@Ground(G);\n'
            'E(1); E(2); E(5);\nG(x) :- E(x), x > 1;\nT(x + 1) :- G(x);\n')
    preds = ['T', 'G']
  elif kind == 'flags':
    tag = r.choice(['alpha', 'beta', 'gamma', 'delta']) + str(r.randint(0, 99))
    text = ('@Engine("sqlite");\n@DefineFlag("limit", "%d");\n@DefineFlag("name", "x${limit}");\n' % r.randint(2, 6) +
            '@DefineFlag("tag", "%s");\n' % tag +
            'E(1); E(2); E(5); E(7);\nT(x) :- E(x), x < ToInt64(FlagValue("limit"));\n'
            'N(FlagValue("name"));\nG(FlagValue("tag") ++ "_events");\n')
    flags = {'limit': str(r.randint(0, 9))} if r.random() < 0.7 else None
    preds = ['T', 'N', 'G']
  else:
    bad = True
    which = r.choice(['parse', 'unbound', 'functor', 'type', 'undefined'])
    if which == 'parse':
      text = '@Engine("sqlite");\nT(x) :- E(x;\n'
    elif which == 'unbound':
      text = '@Engine("sqlite");\nE(1);\nT(x, y) :- E(x);\n'
    elif which == 'functor':
      text = '@Engine("sqlite");\nE(1);\nF(x) :- In(x);\nM := F(In: Nope, Out: E);\nT(x) :- M(x);\n'
    elif which == 'type':
      text = '@Engine("psql");\nE(1);\nT(x + "a") :- E(x);\n'
    else:
      text = '@Engine("sqlite");\nT(x) :- Missing(x), x > 1;\n'
    preds = ['T']
  out = {'kind': kind, 'main': text, 'root': root, 'cwd': None, 'flags': flags, 'preds': preds, 'bad': bad}
  if more_mains:
    out['siblings'] = [dict(out, main=m, preds=ps) for m, ps in more_mains]
  return out


def gen_import_tree(r, root):
  """A small import graph on disk: chains, diamonds, equal base names in two directories,
  aliases, and a file defining both P and <Prefix>_P."""
  files = {}
  shape = r.choice(['chain', 'diamond', 'samebase', 'prefix_clash', 'alias', 'prefix_clash', 'two_mains', 'two_mains', 'two_roots', 'two_roots'])
  eng = '@Engine("sqlite");\n'
  if shape == 'chain':
    files['lib/c.l'] = 'Base(1); Base(2); Base(3);\nC(x) :- Base(x), x > 1;\n'
    files['lib/b.l'] = 'import lib.c.C;\nB(x + 1) :- C(x);\n'
    main = eng + 'import lib.b.B;\nT(x) :- B(x);\n'
  elif shape == 'diamond':
    files['lib/base.l'] = 'D(1); D(2);\nHelper(x) :- D(x);\n'
    files['lib/l.l'] = 'import lib.base.Helper;\nL(x) :- Helper(x), x > 1;\n'
    files['lib/r.l'] = 'import lib.base.Helper;\nR(x * 2) :- Helper(x);\n'
    main = eng + 'import lib.l.L;\nimport lib.r.R;\nT(x, y) :- L(x), R(y);\n'
  elif shape == 'two_roots':
    # import_root given as a LIST of roots: lib.b exists under both (the first one wins),
    # lib.c only under the second
    files['R0/lib/b.l'] = 'B("b_of_first_root");\n'
    files['R1/lib/b.l'] = 'B("b_of_second_root");\n'
    files['R1/lib/c.l'] = 'C("c");\n'
    imports = ['import lib.c.C;', 'import lib.b.B;']
    r.shuffle(imports)
    main = eng + '\n'.join(imports) + '\nT(x, y) :- C(x), B(y);\n'
  elif shape == 'two_mains':
    # two different main programs over ONE import tree: the first imports lib.common itself and
    # through lib.stats, the second reaches lib.common through lib.stats only
    files['lib/common.l'] = 'Base(1); Base(2); Base(%d);\nCommon(x) :- Base(x), x > 1;\n' % r.randint(3, 9)
    files['lib/stats.l'] = 'import lib.common.Common;\nStats(x * 2) :- Common(x);\nTotal() += x :- Common(x);\n'
    main = eng + 'import lib.common.Common;\nimport lib.stats.Stats;\nT(x, y) :- Common(x), Stats(y);\n'
    extra_main = eng + 'import lib.stats.Stats;\nimport lib.stats.Total;\nT(x) :- Stats(x), x > Total();\nU(Total());\n'
  elif shape == 'samebase':
    files['one/util.l'] = 'P(1);\nQ(x) :- P(x);\n'
    files['two/util.l'] = 'P(2);\nQ(x + 5) :- P(x);\n'
    main = eng + 'import one.util.Q;\nimport two.util.Q as Q2;\nT(x, y) :- Q(x), Q2(y);\n'
  elif shape == 'alias':
    files['lib/a.l'] = 'P(1); P(4);\nQ(x) distinct :- P(x);\n'
    main = eng + 'import lib.a.Q as Mine;\nT(x) :- Mine(x);\nU(x) :- Mine(x), x > 2;\n'
  else:
    # the imported file defines P and A_P (its own prefix is A_): renaming must be simultaneous
    n = r.randint(1, 3)
    extra = ''.join('X%d(%d);\n' % (i, i) for i in range(n))
    files['lib/a.l'] = ('P(1); A_P(2);\n' + extra +
                        'Q(x) :- P(x) | A_P(x)' + ''.join(' | X%d(x)' % i for i in range(n)) + ';\n')
    main = eng + 'import lib.a.Q;\nT(x) :- Q(x);\n'
  for rel, txt in files.items():
    path = os.path.join(root, rel)
    os.makedirs(os.path.dirname(path), exist_ok=True)
    with open(path, 'w') as f:
      f.write(txt)
  preds = ['T'] + (['U'] if shape == 'alias' else [])
  if shape == 'two_mains':
    return main, preds, [(extra_main, ['T', 'U'])]
  if shape == 'two_roots':
    return main, preds, 'two_roots'
  return main, preds, []


def build_pool(r, scratch, files, tier, procs=None, part=None):
  pool = []
  n_corpus = 6 if tier == 'quick' else 10
  if part is not None:
    # the corpus is dealt out over the batches (rotated by the seed), so that one quick run
    # compiles every program of the repository under two hash seeds at least once
    b, nb, rot = part
    mine = files[(b + rot) % nb::nb]
    extra = [f for f in r.sample(files, min(3, len(files))) if f not in mine]
    corpus = corpus_requests(mine + extra)
    # all of them are compiled once per hash seed (history 0); the histories draw from the
    # first n_corpus only, the others are marked sweep-only
    for i, c in enumerate(corpus):
      if i >= n_corpus:
        c.append('sweep_only')
  else:
    corpus = corpus_requests(r.sample(files, min(n_corpus + 3, len(files))))[:n_corpus]
  sweep_only = []
  for f, text, preds, *mark in corpus:
    q = {'kind': 'corpus', 'file': f, 'main': text, 'root': None, 'cwd': core.REPO,
         'flags': None, 'preds': preds, 'bad': False}
    if mark:
      sweep_only.append(dict(q, preds=preds[-1:], sweep_only=True))
    else:
      pool.append(q)
  for i in range(8 if tier == 'quick' else 14):
    q = gen_request(r, scratch, i)
    pool.append(q)
    for sib in q.pop('siblings', []):
      pool.append(sib)       # another main program over the same import tree
    if q['kind'] == 'flags':
      # the same text under other user flags is another request; both live in one history
      pool.append(dict(q, flags={'limit': str(r.randint(0, 9)), 'name': r.choice(['n', 'm${limit}'])}))
      if q['flags'] and r.random() < 0.7:
        # another program with its own flag defaults, compiled with the caller's SAME flags dict
        q['share_flags'] = 'g%d' % i
        q2 = gen_request(r, scratch, i + 50, kind='flags')
        q2['flags'] = dict(q['flags'])
        q2['share_flags'] = q['share_flags']
        pool.append(q2)
  if r.random() < 0.4:
    # a pool that certainly has a program switching the experimental syntax on and one that
    # only parses with it
    kinds = {q['kind'] for q in pool}
    for want in ('incant', 'needs_incant'):
      if want not in kinds:
        pool.append(gen_request(r, scratch, len(pool) + 100, kind=want))
  return pool + sweep_only


def make_dirs(scratch):
  """Working directories a history may change to: two hold a file people.db, one does not."""
  dirs = []
  for i, has in enumerate([True, True, False]):
    d = os.path.join(scratch, 'cwd%d' % i)
    os.makedirs(d, exist_ok=True)
    if has:
      with open(os.path.join(d, 'people.db'), 'wb') as f:
        f.write(b'')
    dirs.append(d)
  return dirs


def gen_history(r, pool, max_ops=None):
  pool = [q for q in pool if not q.get('sweep_only')]     # a prefix: indexes stay valid
  n = r.randint(3, 25 if len(pool) > 16 else 14)
  if max_ops:
    n = min(n, r.randint(3, max_ops))
  ops = []
  compiled = []
  for _ in range(n):
    k = r.choice(['compile', 'compile', 'compile', 'compile_reuse', 'sql_again', 'parse', 'clock',
                  'compile_reuse'])
    pi = r.randrange(len(pool))
    preds = pool[pi]['preds']
    if k == 'clock':
      x = r.random()
      if x < 0.5:
        ops.append(['clock', r.choice([0.5, 60.0, 86400.0, -3600.0, 1e-6])])
      elif x < 0.8:
        ops.append(['chdir', r.randrange(3)])
      else:
        ops.append(['setenv'] + r.choice([['LANG', 'C'], ['TZ', 'Asia/Tokyo'], ['HOME', '/nonexistent'],
                                          ['LOGICA_X', '1'], ['COLUMNS', '40'], ['USER', 'somebody']]))
    elif k == 'parse':
      ops.append(['parse', pi])
    elif k == 'sql_again' and len(preds) >= 2:
      a, b = r.sample(preds, 2)
      if r.random() < 0.3:
        b = a          # the very same predicate a second time on the same LogicaProgram
      if 'T9' in preds and pool[pi]['kind'] == 'typed' and r.random() < 0.5:
        # the first request fails late (an unspecified flag), the caller goes on with another one
        a, b = 'T9', r.choice([x for x in preds if x != 'T9'])
      ops.append(['sql_again', pi, a, b])
    elif k == 'compile_reuse' and compiled and r.random() < 0.8:
      pj = r.choice(compiled)
      ops.append(['compile_reuse', pj, r.choice(pool[pj]['preds'])])
    else:
      ops.append(['compile' if k != 'compile_reuse' else 'compile_reuse', pi, r.choice(preds)])
      compiled.append(pi)
  # some histories carry the pair "a program that switches on the experimental syntax ... a
  # program whose parse depends on that switch" when the pool has both
  inc = [i for i, q in enumerate(pool) if q['kind'] == 'incant']
  dep = [i for i, q in enumerate(pool) if q['kind'] == 'needs_incant']
  if inc and dep and r.random() < 0.35:
    a = r.randrange(len(ops) + 1)
    ops.insert(a, [r.choice(['compile', 'parse']), r.choice(inc)] )
    if ops[a][0] == 'compile':
      ops[a].append(r.choice(pool[ops[a][1]]['preds']))
    b = r.randrange(a + 1, len(ops) + 1)
    pj = r.choice(dep)
    ops.insert(b, ['compile', pj, r.choice(pool[pj]['preds'])])
  # a program whose import roots are a list the caller keeps: compiled twice
  listed = [i for i, q in enumerate(pool) if isinstance(q.get('root'), list)]
  if listed and r.random() < 0.7:
    pi = r.choice(listed)
    a = r.randrange(len(ops) + 1)
    ops.insert(a, ['compile', pi, 'T'])
    ops.insert(r.randrange(a + 1, len(ops) + 1), ['compile', pi, 'T'])
  # a request that fails late, then another predicate on the same program object
  typed = [i for i, q in enumerate(pool) if q['kind'] == 'typed' and 'T9' in q['preds']]
  if typed and r.random() < 0.6:
    pi = r.choice(typed)
    ops.insert(r.randrange(len(ops) + 1), ['sql_again', pi, 'T9', r.choice(['T8', 'T8'] + [x for x in pool[pi]['preds'] if x != 'T9'])])
  # likewise for two programs that are compiled with one and the same flags dict
  groups = {}
  for i, q in enumerate(pool):
    if q.get('share_flags'):
      groups.setdefault(q['share_flags'], []).append(i)
  for members in groups.values():
    if len(members) >= 2 and r.random() < 0.5:
      a, b = r.sample(members, 2)
      pos = r.randrange(len(ops) + 1)
      ops.insert(pos, ['compile', a, r.choice(pool[a]['preds'])])
      ops.insert(r.randrange(pos + 1, len(ops) + 1), ['compile', b, 'G'])
  return ops


# ------------------------------------------------------------------ oracle

def normalise(res):
  return json.loads(STOP_RE.sub('logical_stop_T_', json.dumps(res, sort_keys=True)))


def first_difference(a, b):
  for key in ('error', 'sql', 'preamble', 'defines', 'main', 'export', 'dep', 'data', 'iterations', 'stmt_preamble'):
    if a.get(key) != b.get(key):
      x, y = a.get(key), b.get(key)
      if isinstance(x, str) and isinstance(y, str):
        xl, yl = x.split('\n'), y.split('\n')
        for i in range(min(len(xl), len(yl))):
          if xl[i] != yl[i]:
            return '%s line %d: %r vs %r' % (key, i + 1, xl[i][:120], yl[i][:120])
        return '%s: lengths %d vs %d lines' % (key, len(xl), len(yl))
      return '%s: %s vs %s' % (key, json.dumps(x, sort_keys=True)[:200], json.dumps(y, sort_keys=True)[:200])
  return 'no difference'


def comparable(res):
  """What the property speaks about: the SQL artefacts; for a failing request only the
  fact and kind of failure (message wording may legitimately embed set reprs)."""
  if 'error' in res:
    return {'error': res['error']}
  return res


def classify_request(pool, pi, pred):
  req = pool[pi]
  if req['kind'] == 'needs_incant':
    return 'experimental-syntax-switch'
  if req['kind'] == 'imports' and 'A_P' in json.dumps(req.get('main', '')) + str(req.get('root')):
    return 'imports'
  return req['kind']


def feature_key(req, root_files=None):
  """Finer key for known findings: which feature of the request is involved."""
  k = req['kind']
  if k == 'corpus':
    return 'corpus:' + req['file']
  return k


class Oracle(object):
  """References per (program, predicate): pristine under the batch hash seed and pristine
  under another hash seed, each in the cheap (reset) or the real (fork) process model."""

  def __init__(self, pool, procs, cpp_cache=None):
    self.pool = pool
    self.procs = procs
    self.cpp_cache = cpp_cache
    self.memo = {}

  def req(self, pi):
    q = self.pool[pi]
    return {'main': q['main'], 'root': q['root'], 'cwd': q['cwd'], 'flags': q['flags'], 'share_flags': q.get('share_flags')}

  def pristine(self, which, mode, pi, pred, parser=None):
    k = (which, mode, pi, pred, parser)
    if k not in self.memo:
      job = {'kind': 'compile', 'req': self.req(pi), 'pred': pred}
      if parser == 'CPP':
        job.update(parser='CPP', cpp_cache=self.cpp_cache)
      self.memo[k] = self.procs.run(which, mode, job)
    return self.memo[k]


def check_history(case, result, oracle, mode, S=None):
  vs = []
  pool = oracle.pool
  for rec in result['records']:
    if 'result' not in rec:
      continue
    pi, pred = rec['request']
    got = rec['result']
    parser = case.get('parser')
    ref_same = oracle.pristine('same', mode, pi, pred, parser)
    ref_other = oracle.pristine('other', mode, pi, pred, parser)
    kind = feature_key(pool[pi]) + (':cpp-parser' if parser == 'CPP' else '')
    # hash-seed clause: two pristine processes, different hash seeds
    if comparable(ref_same) != comparable(ref_other):
      vs.append({'class': 'hashseed-dependence', 'key': kind,
                 'message': 'pristine compiles of (%s, %s) differ between PYTHONHASHSEED %s and %s: %s' % (
                     describe(pool[pi]), pred, case['hashseed'], oracle.procs.ref_hashseed,
                     first_difference(ref_same, ref_other)),
                 'request': [pi, pred]})
    elif S is not None and 'error' in ref_same and ref_same.get('message') != ref_other.get('message'):
      S.probes['diagnostic_wording_differs_between_hash_seeds'] += 1
    # history clause: same hash seed, with and without history
    a, b = comparable(got), comparable(ref_same)
    if rec.get('clock_moved'):
      a, b = normalise(a), normalise(b)
    if a != b:
      vs.append({'class': 'history-dependence', 'key': kind,
                 'message': '(%s, %s) compiled after history %s differs from a pristine process: %s' % (
                     describe(pool[pi]), pred, brief_ops(case, rec), first_difference(got, ref_same)),
                 'request': [pi, pred]})
    elif S is not None:
      if parser == 'CPP':
        S.probes['cpp_parser_history_compared'] += 1
      if rec.get('second_on_same_program'):
        S.probes['second_FormattedPredicateSql_on_same_program_compared'] += 1
      if rec.get('reused'):
        S.probes['rules_object_reused_compared'] += 1
      if rec.get('clock_moved') and 'logical_stop_' in json.dumps(got):
        S.probes['stop_file_name_seen_after_clock_jump'] += 1
  return vs


def describe(req):
  if req['kind'] == 'corpus':
    return req['file']
  return '%s program %s' % (req['kind'], core.digest(req['main'])[:8])


def brief_ops(case, rec):
  ops = case['ops']
  return '[%d ops]' % len(ops)


# ------------------------------------------------------------------ engine interface

def materialise(case, scratch):
  """Writes the import trees of a replayed case back to disk; returns the pool."""
  pool = []
  roots = {}       # programs that shared an import tree when the case was recorded share it again
  for i, q in enumerate(case['programs']):
    q = dict(q)
    if q.get('files'):
      root = roots.setdefault(json.dumps(q.get('root')) if q.get('root') else i, os.path.join(scratch, 'imp-replay-%d' % i))
      for rel, txt in q['files'].items():
        path = os.path.join(root, rel)
        os.makedirs(os.path.dirname(path), exist_ok=True)
        with open(path, 'w') as f:
          f.write(txt)
      q['root'] = [os.path.join(root, x) for x in q['root_list']] if q.get('root_list') else root
    pool.append(q)
  return pool


def freeze_programs(pool, used):
  """Explicit, self-contained copy of the programs a history uses (import trees inlined)."""
  out = []
  for i, q in enumerate(pool):
    if i not in used:
      out.append({'kind': 'unused', 'main': '', 'root': None, 'cwd': None, 'flags': None, 'preds': [], 'bad': False})
      continue
    q2 = {k: q.get(k) for k in ('kind', 'main', 'root', 'cwd', 'flags', 'preds', 'bad', 'share_flags')}
    if q.get('file'):
      q2['file'] = q['file']
    if q['root']:
      files = {}
      base = os.path.dirname(q['root'][0]) if isinstance(q['root'], list) else q['root']
      for dirpath, _, names in os.walk(base):
        for n in names:
          p = os.path.join(dirpath, n)
          files[os.path.relpath(p, base)] = open(p).read()
      q2['files'] = files
      if isinstance(q['root'], list):
        q2['root_list'] = [os.path.basename(x) for x in q['root']]
    out.append(q2)
  return out


def run_case(case, scratch):
  """Replay/minimisation entry: real processes only. Runs in a fresh interpreter whose
  hash seed is case['hashseed'] and which never compiles anything itself (it is the zygote)."""
  env()
  pool = materialise(case, scratch)
  case = dict(case, programs=pool, dirs=make_dirs(scratch))
  cache = None
  if case.get('parser') == 'CPP':
    cache = cpp_cache_dir(scratch)
    why = ensure_cpp_parser(cache)
    if why:
      raise RuntimeError('C++ parser unavailable: ' + why)
    case['cpp_cache'] = cache
  procs = Procs(case['hashseed'], case['ref_hashseed'], local_is_pristine_zygote=True)
  try:
    oracle = Oracle(pool, procs, cache)
    result = procs.run('same', 'fork', {'kind': 'history', 'case': case})
    return [{k: v[k] for k in ('class', 'key', 'message')}
            for v in check_history(case, result, oracle, 'fork')]
  finally:
    procs.close()


def shrink(case):
  ops = case['ops']
  for o in minimise.drop_chunks(ops, 1):
    yield dict(case, ops=o)
  for i, op in enumerate(ops):
    if op[0] in ('compile_reuse', 'sql_again'):
      yield dict(case, ops=[(['compile', op[1], op[2]] if j == i else x) for j, x in enumerate(ops)])


def plan(tier):
  if tier == 'quick':
    return {'batches': 20, 'timeout': 1500, 'histories': 5, 'wall_budget_s': 360, 'cpp_ops': 6, 'cpp_only_from': 16}
  return {'batches': 480, 'timeout': 3000, 'histories': 20, 'wall_budget_s': 1500, 'cpp_ops': 12}


def run_batch(seed, batch, tier, scratch):
  pl = plan(tier)
  S = core.Summary()
  log = core.EventLog()
  hashseed = core.hash_seed_for(seed, PROPERTY, batch)
  ref_hashseed = core.hash_seed_for(seed, PROPERTY, batch, 'ref')
  if ref_hashseed == hashseed:
    ref_hashseed = (hashseed + 1) % 4294967296
  env()
  files = corpus_files()
  S.counters['corpus_files_listed'] = len(files)
  r = core.rng(seed, PROPERTY, batch, 'pool')
  procs = Procs(hashseed, ref_hashseed, local_is_pristine_zygote=False)
  try:
    part = (batch % 16, 16, seed % 16) if tier == 'quick' and batch < 16 else None
    pool = build_pool(r, scratch, files, tier, procs, part)
    dirs = make_dirs(scratch)
    cache = cpp_cache_dir()
    have_cpp = bool(cache) and os.path.isdir(cache)
    # quick tier: batches 16.. run nothing but a history under the C++ parser (their own, small
    # pool), so that the fork-heavy part does not sit on top of a full batch; thorough tier: every
    # batch ends with one
    cpp_only = pl.get('cpp_only_from') is not None and batch >= pl['cpp_only_from']
    cpp_on = have_cpp and (cpp_only or pl.get('cpp_only_from') is None)
    if not cpp_on and not (cache and os.path.isdir(cache)):
      S.counters['cpp_parser_unavailable'] += 1
    oracle = Oracle(pool, procs, cache)
    sweep_ops = []
    for pi, q in enumerate(pool):
      for p in q['preds'][:2]:
        sweep_ops.append(['compile', pi, p])
    for i in ([pl['histories'] + 1] if cpp_only else range(pl['histories'] + 1 + (1 if cpp_on else 0))):
      if cpp_only and not cpp_on:
        break
      rr = core.rng(seed, PROPERTY, batch, 'hist', i)
      is_cpp = i == pl['histories'] + 1
      if i == 0:
        # degenerate histories: one compile per process = the pure hash-seed sweep
        histories = [[op] for op in sweep_ops]
      elif is_cpp:
        # one history per batch in a process that parses with the C++ parser (LOGICA_PARSER=CPP);
        # real processes only, references from pristine processes in the same parser mode
        histories = [gen_history(rr, pool, max_ops=pl.get('cpp_ops', 7))]
      else:
        histories = [gen_history(rr, pool)]
      # the first real history of every batch runs with real processes throughout
      mode = 'fork' if i == 1 or is_cpp else 'reset'
      for ops in histories:
        case = {'hashseed': hashseed, 'ref_hashseed': ref_hashseed, 'ops': ops, 'programs': pool, 'dirs': dirs}
        if is_cpp:
          case.update(parser='CPP', cpp_cache=cache)
          S.counters['parser:CPP histories'] += 1
        if i == 0:
          op = ops[0]
          result = {'records': [{'op': op, 'result': oracle.pristine('same', 'reset', op[1], op[2]),
                                 'clock_moved': False, 'request': [op[1], op[2]]}],
                    'state': ['n/a']}
        else:
          result = procs.run('same', mode, {'kind': 'history', 'case': case})
        S.counters['process_model:' + mode] += 1
        vs = check_history(case, result, oracle, mode, S)
        if vs and mode == 'reset':
          # a disagreement under the cheap model only counts if real processes show it too
          result_f = procs.run('same', 'fork', {'kind': 'history', 'case': case})
          vs_f = check_history(case, result_f, oracle, 'fork')
          if not vs_f:
            S.probes['cheap_model_disagreement_not_confirmed_by_real_processes'] += 1
          vs = vs_f
        elif mode == 'fork' and i and not is_cpp:
          # cross-validate the cheap model on this history
          result_r = procs.run('same', 'reset', {'kind': 'history', 'case': case})
          a = [core.digest(x.get('result')) for x in result['records']]
          b = [core.digest(x.get('result')) for x in result_r['records']]
          S.probes['cheap_model_cross_validated'] += 1
          if a != b:
            S.probes['cheap_model_differs_from_real_processes'] += 1
        S.runs += 1
        used = {op[1] for op in ops if op[0] not in NONPROGRAM_OPS}
        kinds = sorted({pool[i_]['kind'] for i_ in used})
        for k in kinds:
          S.counters['program_kind:' + k] += 1
        for op in ops:
          S.counters['op:' + op[0]] += 1
          if op[0] == 'clock':
            S.faults_configured['clock_jump'] += 1
            S.faults_fired['clock_jump'] += 1
            S.sim_time += abs(op[1])
          elif op[0] in ('chdir', 'setenv'):
            S.faults_configured['environment_change:' + op[0]] += 1
            S.faults_fired['environment_change:' + op[0]] += 1
        for rec in result['records']:
          if 'result' in rec and 'error' in rec['result']:
            S.faults_fired['diagnostic_raised_mid_pipeline:' + rec['result']['error']] += 1
        if i:
          S.states.add(core.digest64(result['state']))
        prev = 'start'
        for op in ops:
          feat = pool[op[1]]['kind'] if op[0] not in NONPROGRAM_OPS else op[0]
          S.states.add(core.digest64(['pair', prev, op[0], feat]))
          prev = op[0]
        if len(ops) >= 3 and len(used) >= 2:
          S.nontrivial.add(core.digest64([ops, [pool[i_]['main'] for i_ in sorted(used)]]))
        seen_incant = False
        for op in ops:
          if op[0] not in NONPROGRAM_OPS and pool[op[1]]['kind'] == 'incant':
            seen_incant = True
          elif op[0] not in NONPROGRAM_OPS and op[0] != 'parse' and seen_incant:
            S.probes['compile_after_a_program_that_switched_on_experimental_syntax'] += 1
            if pool[op[1]]['kind'] == 'needs_incant':
              S.probes['syntax_sensitive_program_compiled_after_incantation_program'] += 1
            break
        log.add('history', core.digest([ops, [pool[i_]['main'] for i_ in sorted(used)]])[:16],
                [core.digest(rec.get('result'))[:12] for rec in result['records'] if 'result' in rec],
                [v['class'] for v in vs])
        if len(S.samples) < 1 and len(ops) >= 5:
          S.samples.append({'hashseed': hashseed, 'reference_hashseed': ref_hashseed, 'process_model': mode,
                            'ops': [[op[0]] + [describe(pool[op[1]]) if op[0] not in NONPROGRAM_OPS else op[1]] + list(op[2:]) for op in ops]})
        for v in vs:
          if len(S.violations) < 12:
            v = dict(v)
            v.pop('request')
            v['case'] = {'hashseed': hashseed, 'ref_hashseed': ref_hashseed, 'ops': ops,
                         'programs': freeze_programs(pool, used), 'dirs': 'materialise'}
            if is_cpp:
              v['case']['parser'] = 'CPP'
            S.violations.append(v)
    S.counters['real_process_forks'] = procs.forks
    S.counters['module_universe_resets'] = procs.resets
  finally:
    procs.close()
  S.digests.append(log.hexdigest())
  return S


def evidence_meta(tier):
  return {
      'rule': ('A run is one history executed in one simulated compiling process under the batch PYTHONHASHSEED. Two process models: '
               'REAL = a fork of a never-used zygote interpreter (first history of every batch, every confirmation, every replay); '
               'CHEAP = the batch interpreter after a reset of its module universe (all repository modules dropped from sys.modules and '
               're-imported; used for the bulk because process creation is the bottleneck of this sandbox). A disagreement seen under the cheap '
               'model is re-run with real processes and only reported if it persists; one history per batch is run under both models and compared. '
               'A history is 3-25 operations out of Parse(P), Compile(P, pred), '
               'CompileReusingRules(P, pred) (same parsed-rules object as an earlier operation), SqlAgain (second '
               'FormattedPredicateSql on the same LogicaProgram), ClockJump, ChangeDirectory (to one of three directories, two of which hold a file people.db), SetEnvironmentVariable; failing programs (ParsingException, '
               'RuleCompileException, FunctorError, TypeErrorCaughtException raised part-way through the pipeline) are '
               'ordinary members of the program pool. In four dedicated batches of the quick tier (thorough: at the end of every batch) a history of 3-7 (12) operations runs in a process that parses with the C++ parser (LOGICA_PARSER=CPP, the shared library built once per check run from the tree under test): real processes only (the library keeps its own globals), references from pristine processes in the same parser mode under both hash seeds. Pool per batch: 6 (thorough 10) corpus files from integration_tests/** and '
               'type_inference/research/integration_tests with up to 3 predicates each, plus 8 (14) generated programs: '
               'non-recursive and recursive (all unfolding modes, iterative, DuckDB diamond / -1 depth) in several dialects, functor chains, import '
               'trees (chain, diamond, equal base names, alias, a file defining P and <Prefix>_P), flags, programs with the experimental-syntax incantation, '
               'a program that only parses with that syntax on. Batch history 0 is the degenerate sweep: every pool request once, each in its own process. '
               'Every compile result is compared with a pristine process under the same hash seed and with a pristine '
               'process of a second interpreter under another hash seed. Non-trivial = history of >=3 operations over >=2 '
               'distinct programs; distinct = SHA-256 of operations + program texts.'),
      'states_measure': 'distinct fingerprints of process-global state at the end of a history (parse.TOO_MUCH, QL.BULK_FUNCTIONS installed, Concertina.DISPLAY_COUNT) plus distinct (previous operation kind, operation kind, program feature class) triples',
      'sim_time_unit': 'simulated seconds of clock jumps',
      'components': {
          'real': ['parser_py/parse.py', 'compiler/* for all dialects (universe, functors, rule_translate, expr_translate, dialects, recursion_library)',
                   'type_inference/research/infer.py', 'parser_cpp/logica_parse.cpp + logica_parse_cpp.py (LOGICA_PARSER=CPP histories, real processes)'],
          'stub': ['recursion_library.time -> simulated clock', 'the import file system is a real scratch directory',
                   'process boundary: fork of a pristine zygote / reset of the module universe; separate interpreters with another PYTHONHASHSEED as reference servers'],
          'not_run': ['execution of the SQL (compilation only)', 'comparison of the C++ parser with the Python parser (that is C06, not claimed): C++-mode results are only compared with C++-mode references']},
      'expected_probes': ['second_FormattedPredicateSql_on_same_program_compared', 'rules_object_reused_compared',
                          'compile_after_a_program_that_switched_on_experimental_syntax', 'syntax_sensitive_program_compiled_after_incantation_program', 'stop_file_name_seen_after_clock_jump', 'cheap_model_cross_validated', 'cpp_parser_history_compared'],
      'assumptions': [
          'the trivial reference model: output is a function of (program text, import tree, flags) only',
          'the cheap process model resets only state kept in the repository\'s own modules; state kept elsewhere (os.environ, stdlib caches) is only reset in the real-process runs',
          'for a request that fails, only the exception type is compared (message wording is not SQL); wording differences between hash seeds are counted as a probe',
          'with no clock operation before it a result is compared byte for byte including stop-file digits; after a ClockJump only the digits in /tmp/logical_stop_<digits>_ are normalised',
          'asynchronous cancellation in the middle of a compile is deliberately not injected (the property speaks of programs compiled earlier, not of interrupted compilations)',
      ],
  }
