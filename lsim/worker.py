"""Child-interpreter entry point: runs one batch, one replay or one minimisation.

Started by core.run_child with an explicit PYTHONHASHSEED.  Loaded by path (never
with -m) so the module is not imported twice.
"""
import faulthandler
import importlib
import io
import json
import os
import sys
import traceback


def main():
  job_path, out_path = sys.argv[1], sys.argv[2]
  with open(job_path) as f:
    job = json.load(f)
  faulthandler.enable()
  if job.get('scratch'):
    sys.pycache_prefix = os.path.join(job['scratch'], 'pyc')
    sys.dont_write_bytecode = False
  try:
    import resource
    # An exploding statement must become a MemoryError in this child (the case is then
    # discarded and counted), not an OOM kill of the machine.
    resource.setrlimit(resource.RLIMIT_AS, (8 << 30, 8 << 30))
  except Exception:
    pass
  faulthandler.dump_traceback_later(job.get('timeout', 600), exit=True)
  # The system under test prints (import warnings, SQL on error, progress pictures);
  # none of it is part of any oracle unless an engine captures it itself.
  real_stdout = sys.stdout
  sys.stdout = io.StringIO()
  try:
    engine = importlib.import_module('lsim.' + job['engine'])
    kind = job['kind']
    if kind == 'batch':
      summary = engine.run_batch(job['seed'], job['batch'], job['tier'], job['scratch'])
      result = summary.to_json()
    elif kind == 'replay':
      result = {'violations': engine.run_case(job['case'], job['scratch'])}
    elif kind == 'minimise':
      from lsim import minimise
      result = minimise.minimise(engine, job['case'], job['violation'],
                                 job['scratch'], job.get('budget_s', 120))
    else:
      raise ValueError(kind)
  except BaseException:
    sys.stdout = real_stdout
    traceback.print_exc()
    sys.exit(3)
  sys.stdout = real_stdout
  with open(out_path, 'w') as f:
    json.dump(result, f)
  faulthandler.cancel_dump_traceback_later()


if __name__ == '__main__':
  main()
