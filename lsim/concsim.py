"""C14 - execution runs each statement after its inputs, the prescribed number of times.

Layer A: the real Concertina (scheduler, iteration bookkeeping, display code) under
a simulated engine, file system and clock, on generated plans.
Layer B: compiled plans executed by the real ExecuteLogicaProgram on real SQLite
behind the fault-injecting connection proxy (see concsim_b.py, merged in here).
"""
import contextlib
import io
import sys

from lsim import core
from lsim import concworld
from lsim import minimise

PROPERTY = 'C14'
INF = 1000000000
NAME_POOL = ['\u2913a', '\u2913P_ifr1', 'a b', 'a', 'b', 'c', 'd', 'e', 'f', 'g', 'h', 'A', 'B', 'C', 'Z', 'x1', 'x2',
             'x10', 'P_ifr1', 'P_ifr2', 'Q_ifr1', 'Q_ifr2', 'm', 'n', 'k', 'T', 'U',
             'V', 'W', 'q:r', 'zz', 'y', 'Y', 'aa', 'ab', 'ba', '0', '1', '_']

_cl = None


def cl():
  global _cl
  if _cl is None:
    core.import_repo()
    with contextlib.redirect_stdout(io.StringIO()):
      from common import concertina_lib
    _cl = concertina_lib
  return _cl


# ---------------------------------------------------------------- generator (layer A)

def gen_plan(r):
  """A well-formed plan: actions in topological unit order, disjoint iteration groups."""
  klass = r.choice(['A1', 'A1', 'A2'])
  names = list(NAME_POOL)
  r.shuffle(names)
  n_groups = r.choice([0, 1, 1, 1, 2, 2, 3])
  n_plain = r.randint(1, 7)
  units = ['g'] * n_groups + ['p'] * n_plain
  r.shuffle(units)
  actions = []      # [name, requires, launcher]
  earlier = []      # names available as requirements
  iterations = {}
  gi = 0
  for u in units:
    if u == 'p':
      name = names.pop()
      k = r.choice([0, 0, 1, 1, 2, 3])
      req = r.sample(earlier, min(k, len(earlier)))
      launcher = 'none' if (not req and r.random() < 0.3) else 'query'
      actions.append([name, req, launcher])
      earlier.append(name)
    else:
      gi += 1
      mode = r.choice(['diamond', None, None])
      size = r.choice([1, 2, 3, 4, 5]) if mode == 'diamond' else r.choice([2, 2, 4, 6])
      members = [names.pop() for _ in range(size)]
      mid = size // 2
      ext_pool = list(earlier)
      if mode == 'diamond':
        halves = [members]
      else:
        halves = [members[:mid], members[mid:]]
      # external requirements per half
      e_upper = r.sample(ext_pool, min(r.choice([0, 1, 1, 2, 3]), len(ext_pool)))
      if klass == 'A1':
        e_lower = [x for x in e_upper if r.random() < 0.7]
      else:
        e_lower = r.sample(ext_pool, min(r.choice([0, 1, 1, 2]), len(ext_pool)))
      for hi, half in enumerate(halves):
        pool = e_upper if hi == 0 else e_lower
        # every pool element is required by at least one member of the half
        assign = {m: [] for m in half}
        for x in pool:
          assign[r.choice(half)].append(x)
          for m in half:
            if r.random() < 0.3 and x not in assign[m]:
              assign[m].append(x)
        for m in half:
          idx = members.index(m)
          internal = [q for q in members[:idx] if r.random() < 0.4]
          actions.append([m, assign[m] + internal, 'query'])
      rep = r.choice([1, 1, 2, 2, 3, 3, 4, 5, 6, INF])
      sig = None
      if rep == INF or r.random() < 0.5:
        sig = '/tmp/logical_stop_%d_%s.json' % (r.randint(1, 99999), members[0])
      it = {'predicates': list(members), 'repetitions': rep, 'stop_signal': sig}
      if mode:
        it['mode'] = mode
      name = 'it%d_%s' % (gi, members[0])
      if iterations and r.random() < 0.15:
        # compiled iteration names are predicate names, which may end like the names the executor
        # gives to the halves of another iteration
        name = r.choice(sorted(iterations)) + r.choice(['_upper', '_lower'])
        if name in iterations:
          name = 'it%d_%s' % (gi, members[0])
      iterations[name] = it
      earlier.extend(members)
  r.shuffle(actions)
  for a in actions:
    r.shuffle(a[1])
  items = list(iterations.items())
  r.shuffle(items)
  return {'klass': klass, 'actions': actions, 'iterations': [[k, v] for k, v in items]}


def plan_size(plan, cap_inf):
  """Number of engine calls of a fault-free, signal-free run (INF capped)."""
  members = set()
  total = 0
  for _, it in plan['iterations']:
    rep = it['repetitions']
    rep = cap_inf if rep >= INF else max(rep, 1)
    total += rep * len(it['predicates'])
    members |= set(it['predicates'])
  total += len([a for a in plan['actions'] if a[0] not in members])
  return total


def scenarios(r, plan, tier):
  """The schedule/fault space sampled (or enumerated) for one plan."""
  out = []
  sigs = [(k, it) for k, it in plan['iterations'] if it['stop_signal']]
  has_inf = any(it['repetitions'] >= INF for _, it in plan['iterations'])
  size = plan_size(plan, 3)
  # the display mode, the clock behaviour and the one-line switch are drawn per plan and apply to
  # EVERY scenario of that plan (enumerated signal instants and error positions included), so that
  # nothing in the executor can depend on them unnoticed
  mode = r.choice(['silent', 'silent', 'silent', 'terminal', 'colab-text'])
  durs = r.choice([[0.001], [0.001], [0.0], [0.3, 0.6, 5.0], [1e-6, 3600.0], [0.2, -1.0, 0.7],
                   [86400.0 * 3], [0.4999, 0.5001], [0.6]])
  base = {'fs0': {}, 'script': [], 'error_at': None, 'durations': durs,
          'display_mode': mode, 'oneline': mode == 'terminal' and r.random() < 0.3}

  def with_inf_guard(sc, horizon):
    # every INF group must be stopped: raise its signal (non-empty) for good.
    for _, it in plan['iterations']:
      if it['repetitions'] >= INF:
        p = it['stop_signal']
        t = r.randint(0, horizon)
        sc['script'] = [e for e in sc['script'] if not (e[1] == p and e[0] >= t)]
        if t == 0:
          sc['fs0'] = dict(sc['fs0'])
          sc['fs0'][p] = 'stop'
        else:
          sc['script'].append([t, p, 'stop'])
    return sc

  if not has_inf:
    out.append(dict(base))
  # enumerate the instant the signal becomes visible
  for _, it in sigs:
    p = it['stop_signal']
    horizon = size + 2
    if horizon <= 40:
      instants = list(range(0, horizon + 1))
    else:
      instants = sorted(r.sample(range(0, horizon + 1), 20))
    for t in instants:
      sc = dict(base)
      if t == 0:
        sc['fs0'] = {p: r.choice(['stop', '[{"logica_value": 1}]', 'x'])}
      else:
        sc['script'] = [[t, p, r.choice(['stop', '{"a": 1}\n', '0'])]]
      # the other INF groups must end too
      others = dict(sc)
      others['script'] = list(sc['script'])
      for _, it2 in plan['iterations']:
        if it2['repetitions'] >= INF and it2['stop_signal'] != p:
          others['script'].append([r.randint(1, horizon), it2['stop_signal'], 'stop'])
      out.append(others)
  # random composite scripts: empty file, vanish, stale, clock jumps, display modes
  for _ in range(3 if tier == 'quick' else 6):
    sc = dict(base)
    sc['script'] = []
    sc['fs0'] = {}
    shared = {}
    for _, it in sigs:
      shared[it['stop_signal']] = shared.get(it['stop_signal'], 0) + 1
    for _, it in sigs:
      p = it['stop_signal']
      horizon = size + 2
      for _e in range(r.choice([0, 1, 1, 2, 3])):
        t = r.randint(0, horizon)
        content = r.choice(['stop', 'stop', '', '', None, '1'])
        if t == 0:
          if content is not None:
            sc['fs0'][p] = content
        else:
          sc['script'].append([t, p, content])
    sc = with_inf_guard(sc, size + 2)
    sc['durations'] = [r.choice([0.0, 1e-6, 0.001, 0.3, 0.6, 5.0, 3600.0, 86400.0 * 3,
                                 -1.0, -86400.0])
                       for _ in range(r.randint(1, 5))]
    sc['display_mode'] = r.choice(['silent', 'silent', 'terminal', 'colab-text'])
    sc['oneline'] = r.random() < 0.2
    out.append(sc)
  # engine error at every call position (small plans) or a sample
  if not has_inf and size <= 30:
    ks = list(range(1, size + 1))
    if tier == 'quick' and len(ks) > 6:
      ks = sorted(r.sample(ks, 6))
    for k in ks:
      sc = dict(base)
      sc['error_at'] = k
      out.append(sc)
  return out


# ---------------------------------------------------------------- execution (layer A)

def execute_a(case):
  """Runs the real Concertina on the case; returns the observation."""
  c = cl()
  plan = case['plan']
  world = concworld.World()
  world.fs = dict(case.get('fs0') or {})
  env = {'LOGICA_TERMINAL_ONELINE': 'yes'} if case.get('oneline') else {}
  concworld.install(c, world, env)
  config = []
  for name, req, launcher in plan['actions']:
    entry = {'name': name, 'requires': list(req), 'action': {'name': name, 'launcher': launcher}}
    if launcher == 'none':
      entry['type'] = 'data'
    config.append(entry)
  iterations = {}
  for k, it in plan['iterations']:
    iterations[k] = dict(it)
  budget = plan_size(plan, 60) + 5
  engine = concworld.SimEngine(world, case.get('script') or [], case.get('error_at'),
                               case.get('durations'), budget)
  outcome = 'returned'
  detail = ''
  out = io.StringIO()
  old = sys.stdout
  sys.stdout = out
  try:
    try:
      conc = c.Concertina(config, engine, display_mode=case.get('display_mode', 'silent'),
                          iterations=iterations)
      conc.Run()
    except concworld.SimEngineError as e:
      outcome, detail = 'engine_error', str(e)
    except concworld.CallBudgetExceeded:
      outcome = 'budget'
    except AssertionError as e:
      outcome, detail = 'assert', str(e)[:200]
    except Exception as e:   # crash inside the executor
      outcome, detail = 'crash', '%s: %s' % (type(e).__name__, str(e)[:200])
  finally:
    sys.stdout = old
  return {'trace': engine.trace, 'fs_after': engine.fs_after, 'outcome': outcome,
          'detail': detail, 'world': world, 'printed': len(out.getvalue())}


# ---------------------------------------------------------------- oracle (layer A)

def expected_block(members, rep, visible_at_check):
  """Reference model of one iteration group: a cyclic queue.

  A member leaves the queue when it has run `rep` times or when, at its check (made
  only if it has not run `rep` times), the signal is or has been visible.
  visible_at_check(k) -> bool for the k-th (1-based) member call of the block."""
  count = {p: 0 for p in members}
  queue = list(members)
  seq = []
  k = 0
  seen = False
  while queue and k < 100000:
    p = queue.pop(0)
    seq.append(p)
    k += 1
    count[p] += 1
    if count[p] >= rep:
      continue
    if seen or visible_at_check(k):
      seen = True
      continue
    queue.append(p)
  return seq


def check_a(case, obs):
  """Constraints of C14 on one observed execution. Returns a list of violations."""
  plan = case['plan']
  trace = obs['trace']
  vs = []

  def V(klass, key, msg):
    vs.append({'class': klass, 'key': key, 'message': msg})

  requires = {a[0]: list(a[1]) for a in plan['actions']}
  group_of = {}
  groups = {}
  for k, it in plan['iterations']:
    groups[k] = it
    for p in it['predicates']:
      group_of[p] = k
  outcome = obs['outcome']
  if outcome == 'assert':
    V('unschedulable', 'assert', 'well-formed plan rejected: %s' % obs['detail'])
    return vs
  if outcome == 'crash':
    V('crash', obs['detail'].split(':')[0], 'executor raised %s' % obs['detail'])
    return vs
  if outcome == 'budget':
    V('non-termination', 'budget', 'Run() exceeded the call budget; trace prefix %s' % trace[:40])
    return vs
  error_at = case.get('error_at')
  if error_at is not None and error_at <= len(trace) and outcome == 'returned':
    V('error-swallowed', 'returned', 'engine error at call %d did not propagate out of Run()' % error_at)
  if outcome == 'engine_error' and len(trace) != error_at:
    V('error-swallowed', 'continued', 'calls continued after the engine error at %d: %s' % (error_at, trace))
  complete_run = outcome == 'returned' and (error_at is None or error_at > len(trace))

  last_index = {}
  first_index = {}
  for i, x in enumerate(trace):
    last_index[x] = i
    first_index.setdefault(x, i)
  # 1. inputs first
  calls = {}
  for i, x in enumerate(trace):
    for q in requires.get(x, []):
      if q in group_of and group_of.get(x) == group_of[q]:
        if calls.get(q, 0) < calls.get(x, 0) + 1:
          V('inputs-first', 'in-group',
            '%s (run %d) was called before its in-iteration input %s ran in this repetition; trace %s' % (
                x, calls.get(x, 0) + 1, q, trace))
      else:
        if q not in first_index or first_index[q] > i:
          key = 'external'
          g = group_of.get(x)
          if g is not None and groups[g].get('mode') != 'diamond':
            members = groups[g]['predicates']
            mid = len(members) // 2
            upper, lower = members[:mid], members[mid:]
            upper_ext = set()
            for m in upper:
              upper_ext |= set(requires[m]) - set(members)
            if x in lower and q not in upper_ext:
              key = 'lower-half-private-external'
          V('inputs-first', key,
            '%s was called before its input %s had run; trace %s' % (x, q, trace))
        elif last_index[q] > i and complete_run:
          V('inputs-first', 'external-unfinished',
            '%s was called before its input %s had completed all its runs; trace %s' % (x, q, trace))
    calls[x] = calls.get(x, 0) + 1
  if not complete_run:
    return vs
  # 2. exactly once
  for name in requires:
    if name in group_of:
      continue
    n = calls.get(name, 0)
    if n != 1:
      V('exactly-once', 'count', 'non-iterated action %s was called %d times; trace %s' % (name, n, trace))
  for x in calls:
    if x not in requires:
      V('exactly-once', 'unknown', 'unknown action %s called' % x)
  # 3. iteration shape
  for k, it in groups.items():
    members = it['predicates']
    idx = [i for i, x in enumerate(trace) if x in set(members)]
    got = [trace[i] for i in idx]
    sig = it['stop_signal']

    def visible(j, idx=idx, sig=sig):
      if not sig or j > len(idx):
        return False
      return bool(obs['fs_after'][idx[j - 1]].get(sig))
    exp = expected_block(members, it['repetitions'], visible)
    if got != exp:
      n = len(members)
      rep = it['repetitions']
      if not sig or not any(obs['fs_after'][i].get(sig) for i in range(len(trace))):
        key = 'repetitions'
      else:
        key = 'stop-signal'
      V('iteration-shape', key,
        'iteration %s members %s repetitions %s: ran %s, expected %s' % (k, members, rep, got, exp))
    elif idx and idx[-1] - idx[0] + 1 != len(idx):
      # Members interleaved with a non-member: only wrong if that action touches the group.
      inside = [trace[i] for i in range(idx[0], idx[-1] + 1) if trace[i] not in set(members)]
      for x in inside:
        if set(requires.get(x, [])) & set(members):
          V('inputs-first', 'inside-block', '%s ran inside the iteration block it reads; trace %s' % (x, trace))
  return vs


def run_case_a(case):
  obs = execute_a(case)
  return check_a(case, obs), obs


# ---------------------------------------------------------------- engine interface

def run_case(case, scratch):
  if case.get('layer', 'A') == 'A':
    vs, _ = run_case_a(case)
    return vs
  if case['layer'] == 'P':
    from lsim import concsim_p
    return concsim_p.run_case_p(case)[0]
  from lsim import concsim_b
  return concsim_b.run_case(case, scratch)


def shrink(case):
  if case.get('layer') == 'P':
    from lsim import concsim_p
    for c in concsim_p.shrink(case):
      yield c
    return
  if case.get('layer', 'A') != 'A':
    from lsim import concsim_b
    for c in concsim_b.shrink(case):
      yield c
    return
  plan = case['plan']

  def with_plan(p, **kw):
    c = dict(case)
    c['plan'] = p
    c.update(kw)
    return c
  # simplify environment first
  if case.get('display_mode', 'silent') != 'silent' or case.get('oneline'):
    yield dict(case, display_mode='silent', oneline=False)
  if case.get('durations') not in (None, [0.001]):
    yield dict(case, durations=[0.001])
  if case.get('script'):
    for s in minimise.drop_chunks(case['script']):
      yield dict(case, script=s)
  if case.get('fs0'):
    yield dict(case, fs0={})
  if case.get('error_at') is not None:
    yield dict(case, error_at=None)
  members = set()
  for _, it in plan['iterations']:
    members |= set(it['predicates'])
  # drop a non-member action
  for a in plan['actions']:
    if a[0] in members:
      continue
    p = {'klass': plan['klass'],
         'actions': [[n, [q for q in req if q != a[0]], l] for n, req, l in plan['actions'] if n != a[0]],
         'iterations': plan['iterations']}
    yield with_plan(p)
  # drop a whole group (members included)
  for gi, (k, it) in enumerate(plan['iterations']):
    ms = set(it['predicates'])
    p = {'klass': plan['klass'],
         'actions': [[n, [q for q in req if q not in ms], l] for n, req, l in plan['actions'] if n not in ms],
         'iterations': [x for j, x in enumerate(plan['iterations']) if j != gi]}
    yield with_plan(p)
  # shrink a group: drop the last member of each half / reduce repetitions / drop the signal
  for gi, (k, it) in enumerate(plan['iterations']):
    ms = it['predicates']
    if it.get('mode') == 'diamond' and len(ms) > 1:
      drop = {ms[-1]}
    elif it.get('mode') != 'diamond' and len(ms) > 2:
      drop = {ms[len(ms) // 2 - 1], ms[-1]}
    else:
      drop = None
    if drop:
      it2 = dict(it, predicates=[m for m in ms if m not in drop])
      p = {'klass': plan['klass'],
           'actions': [[n, [q for q in req if q not in drop], l] for n, req, l in plan['actions'] if n not in drop],
           'iterations': [[k2, (it2 if j == gi else i2)] for j, (k2, i2) in enumerate(plan['iterations'])]}
      yield with_plan(p)
    for rep in minimise.smaller_ints(it['repetitions'] if it['repetitions'] < INF else 7, 1):
      it2 = dict(it, repetitions=rep)
      p = dict(plan, iterations=[[k2, (it2 if j == gi else i2)] for j, (k2, i2) in enumerate(plan['iterations'])])
      yield with_plan(p)
    if it['stop_signal'] and it['repetitions'] < INF:
      it2 = dict(it, stop_signal=None)
      p = dict(plan, iterations=[[k2, (it2 if j == gi else i2)] for j, (k2, i2) in enumerate(plan['iterations'])])
      yield with_plan(p)
  # drop one requirement edge
  for ai, (n, req, l) in enumerate(plan['actions']):
    for q in req:
      acts = [[n2, ([x for x in r2 if x != q] if j == ai else list(r2)), l2]
              for j, (n2, r2, l2) in enumerate(plan['actions'])]
      yield with_plan(dict(plan, actions=acts))


def plan(tier):
  if tier == 'quick':
    return {'batches': 48, 'timeout': 1500, 'a_plans': 300, 'b_programs': 4, 'p_plans': 600, 'wall_budget_s': 300}
  return {'batches': 480, 'timeout': 3000, 'a_plans': 4000, 'b_programs': 60, 'p_plans': 6000, 'wall_budget_s': 1500}


def trivial_a(case, obs):
  return not case['plan']['iterations'] and case.get('error_at') is None


def run_batch(seed, batch, tier, scratch):
  pl = plan(tier)
  S = core.Summary()
  log = core.EventLog()
  hashseed = core.hash_seed_for(seed, PROPERTY, batch)
  for i in range(pl['a_plans']):
    r = core.rng(seed, PROPERTY, 'A', batch, i)
    p = gen_plan(r)
    scs = scenarios(r, p, tier)
    for sc in scs:
      case = dict(sc)
      case.update({'layer': 'A', 'plan': p, 'hashseed': hashseed})
      vs, obs = run_case_a(case)
      S.runs += 1
      S.counters['A:' + p['klass']] += 1
      S.counters['A:display:' + case.get('display_mode', 'silent')] += 1
      S.sim_time += obs['world'].sim_time
      fired = account_a(S, case, obs)
      log.add('A', core.digest(case)[:16], obs['trace'], obs['outcome'], [v['class'] for v in vs])
      S.states.add(core.digest64([sorted(map(str, p['actions'])), obs['trace']]))
      if not trivial_a(case, obs):
        S.nontrivial.add(core.digest64(case))
      if len(S.samples) < 2 and (p['iterations'] and fired):
        S.samples.append({'case': case, 'trace': obs['trace'], 'outcome': obs['outcome']})
      for v in vs:
        if len(S.violations) < 40:
          v = dict(v)
          v['case'] = case
          S.violations.append(v)
  if pl.get('p_plans'):
    from lsim import concsim_p
    concsim_p.run_batch_into(S, log, seed, batch, tier, pl['p_plans'], hashseed)
  if pl['b_programs']:
    from lsim import concsim_b
    concsim_b.run_batch_into(S, log, seed, batch, tier, scratch, pl['b_programs'], hashseed)
  S.digests.append(log.hexdigest())
  return S


def account_a(S, case, obs):
  """Counts faults that actually fired and rare branches actually reached."""
  fired = False
  plan = case['plan']
  trace = obs['trace']
  n = len(trace)
  if case.get('error_at') is not None:
    S.faults_configured['engine_error'] += 1
    if obs['outcome'] == 'engine_error':
      S.faults_fired['engine_error'] += 1
      fired = True
  durs = case.get('durations') or []
  if any(d < 0 for d in durs):
    S.faults_configured['clock_step_back'] += 1
    if any(durs[i % len(durs)] < 0 for i in range(n)):
      S.faults_fired['clock_step_back'] += 1
  if any(d >= 3600 for d in durs):
    S.faults_configured['clock_jump_forward'] += 1
    if any(durs[i % len(durs)] >= 3600 for i in range(n)):
      S.faults_fired['clock_jump_forward'] += 1
  if case.get('fs0'):
    S.faults_configured['signal_stale_at_start'] += 1
  for t, path, content in case.get('script') or []:
    kind = 'signal_vanish' if content is None else ('signal_empty' if content == '' else 'signal_raise')
    S.faults_configured[kind] += 1
    if t <= n:
      S.faults_fired[kind] += 1
  group_of = {}
  for k, it in plan['iterations']:
    for p in it['predicates']:
      group_of[p] = (k, it)
  # probes: where was the signal first seen?
  for k, it in plan['iterations']:
    sig = it['stop_signal']
    if not sig:
      continue
    members = it['predicates']
    idx = [i for i, x in enumerate(trace) if x in set(members)]
    cnt = {}
    for j, i in enumerate(idx):
      x = trace[i]
      cnt[x] = cnt.get(x, 0) + 1
      vis = bool(obs['fs_after'][i].get(sig)) if i < len(obs['fs_after']) else False
      if vis and cnt[x] < it['repetitions']:
        fired = True
        S.probes['signal_observed_at_a_check'] += 1
        if case.get('fs0', {}).get(sig):
          S.faults_fired['signal_stale_at_start'] += 1
        if x != members[0]:
          S.probes['signal_first_seen_by_non_first_member'] += 1
        if j >= len(members):
          S.probes['signal_seen_after_first_repetition'] += 1
        break
      if vis and cnt[x] >= it['repetitions']:
        S.probes['signal_and_last_repetition_coincide'] += 1
        break
    if it['repetitions'] >= INF:
      S.probes['unbounded_iteration_stopped_by_signal'] += 1
    if it['repetitions'] <= 0:
      S.probes['non_positive_repetitions'] += 1
  if len(plan['iterations']) >= 2:
    S.probes['two_or_more_groups'] += 1
  if obs['printed']:
    S.probes['display_rendered'] += 1
  return fired or bool(plan['iterations'])


def evidence_meta(tier):
  return {
      'rule': ('Layer A: seeded generation of well-formed plans (1-7 plain actions, 0-3 disjoint '
               'iteration groups in two-half or diamond mode, repetitions 0..6 or unbounded with a '
               'guaranteed stop signal, shuffled list/dict orders; class A1 = compiler-shaped, A2 = '
               'general well-formed). For each plan: the fault-free run, EVERY instant at which the '
               'stop signal can become visible (all call indexes when the run has <=40 calls, else '
               '20 sampled), random composite scripts (empty file, vanishing file, stale file, clock '
               'jumps forwards and backwards, terminal/colab-text display) and an engine error at '
               'every call position (sampled in the quick tier). A run is one execution of '
               'Concertina.Run(). Non-trivial = the plan has an iteration group or a fault fired; '
               'distinct = distinct SHA-256 of the explicit case. '
               'Layer P (plan assembly): abstract programs = DAGs of 2-9 grounded tables, 0-2 external data tables, an optional '
               'two-member iteration, 1-4 requested predicates (a requested predicate may be an intermediate of another); for each '
               'requested predicate an execution object with the statements of its grounded closure is handed to the real '
               'ExecuteLogicaProgram with a simulated sql_runner; the fault-free run plus an engine error at EVERY call position; when the iteration has a stop signal, the engine raises it at EVERY call position (sometimes with a later failure on top) and the request is then repeated, with the file removed, on fresh or on the very same execution objects; a stale signal file at the start likewise. '
               'Layer B: generated programs with @Ground intermediates and/or recursion of depth 21..41 (iterative plans, a quarter of them with a functor copy over the recursion), a random '
               'non-empty subset of requested predicates (incl. grounded intermediates and cover members), in-memory or file database, '
               'optionally one faulted run (abort/interrupt/disk full/locked) before the checked run; executed by the real '
               'ExecuteLogicaProgram + SqlRunner on SQLite; reads/creates per statement from the SQLite authorizer; every requested '
               'predicate is also run alone and compared.'),
      'states_measure': 'distinct (plan, call trace) pairs (SHA-256 of sorted actions + engine call sequence)',
      'sim_time_unit': 'simulated seconds (sum of drawn action durations)',
      'components': {
          'real': ['layer P: concertina_lib.ExecuteLogicaProgram, RenamePredicate, ConcertinaConfig, ConcertinaQueryEngine, Concertina (sql_runner and execution objects simulated)',
                   'layer B: parser, compiler, concertina_lib.ExecuteLogicaProgram/RenamePredicate/ConcertinaQueryEngine, run_in_terminal.SqlRunner/RunSQL, SQLite',
                   'common/concertina_lib.py: Concertina (SortActions, UnderstandIterations, '
                   'UpdateStateForIterativeAction, ActionIterationWantsToStopBySignal, Run, display code '
                   'in silent/terminal/colab-text modes)', 'common/graph_art.py'],
          'stub': ['engine (simulated: records calls, owns time, raises injected errors)',
                   'stop-signal file system (in-memory)', 'wall clock (simulated)',
                   'IPython display/update_display/HTML (no-ops)'],
          'not_run': ['display_mode=colab (needs graphviz)']},
      'expected_probes': ['signal_observed_at_a_check', 'signal_first_seen_by_non_first_member',
                          'signal_seen_after_first_repetition', 'signal_and_last_repetition_coincide',
                          'unbounded_iteration_stopped_by_signal', 'two_or_more_groups',
                          'display_rendered', 'B_compiled_iteration_executed',
                          'B_requested_predicate_is_also_an_intermediate', 'B_together_vs_alone_compared',
                          'B_grounded_intermediates', 'P_requested_predicate_is_also_an_intermediate',
                          'P_external_data_tables', 'P_tables_read_but_not_produced', 'P_iteration_in_assembled_plan', 'P_several_predicates_requested'],
      'assumptions': [
          'plans are well-formed: acyclic, disjoint groups, in-group requirements point backwards in the declared order, no outside action between two members of a group',
          'a stop signal is "raised" when the file exists with non-empty content at the instant a member checks it; once seen it stays seen (the code says so explicitly)',
          'the tie-break among independent actions is not part of the property and is not checked',
      ],
  }
