"""C14 layer B: compiled plans executed by the real ExecuteLogicaProgram on real SQLite.

Programs with @Ground intermediates and/or recursion deeper than 20 (iterative plans)
are compiled once and run for a random subset of requested predicates, exactly as
tools/run_in_terminal.RunMany does.  What each statement reads and creates is taken
from the SQLite authorizer (independent of the compiler's own dependency edges); the
sequence of (predicate, is_final) calls is taken at the sql_runner seam.
"""
import collections
import copy
import os

from lsim import core
from lsim import gen
from lsim import ref
from lsim import lrun
from lsim import sqlworld
from lsim import recsim
from lsim import minimise

Counter = collections.Counter


def gen_case(r, hashseed):
  kind = r.choice(['ground', 'ground', 'deep', 'deep', 'deep+ground'])
  preset = None
  if kind == 'ground' and r.random() < 0.3:
    # a grounded base read through nested WITH helpers by several grounded readers
    program = gen.gen_withchain(r)
    preset = program['ground']
  elif kind == 'ground':
    program = gen.gen_nonrecursive(r, n_idb=r.randint(3, 6))
  else:
    program, family, main = gen.gen_recursive(r, r.choice([21, 22, 23, 30, 41, 22, 21]))
    if r.random() < 0.25:
      gen.add_functor(r, program, main)     # M2 := M(E: ETwo) over the deep recursion
  idb = gen.idb_names(program)
  dep = gen.dependants(program)
  if kind in ('ground', 'deep+ground'):
    comps, graph = ref.sccs(program['preds'])
    recursive = {n for c in comps if len(c) > 1 or c[0] in graph[c[0]] for n in c}
    fnames = {f['name'] for f in program.get('functors') or []}
    cands = [n for n in idb if n not in recursive and n not in fnames] or []
    if kind == 'deep+ground' and not cands:
      kind = 'deep'
    elif preset is not None:
      program['ground'] = preset
    elif cands:
      program['ground'] = sorted(set(r.sample(cands, min(len(cands), r.choice([1, 1, 2, 3])))))
  k = r.choice([1, 2, 2, 3, len(idb)])
  requested = r.sample(idb, min(k, len(idb)))
  db = r.choice(['memory', 'memory', 'file'])
  faults = []
  if db == 'file' and r.random() < 0.5:
    faults = [recsim.gen_fault(r, kind != 'ground')]
  return {'layer': 'B', 'hashseed': hashseed, 'kind': kind, 'program': program, 'requested': requested,
          'db': db, 'faults': faults,
          'display_mode': r.choice(['silent', 'silent', 'silent', 'terminal', 'colab-text'])}


def run_recorded(comp, preds, world, display_mode):
  """ExecuteLogicaProgram with the real SqlRunner, recording the calls at the seam."""
  m = lrun.mods()
  execs = [comp.executions[comp.preds.index(p)] for p in preds]
  calls = []
  sql_to_pred = {}
  for e in execs:
    for t, sql in e.table_to_export_map.items():
      sql_to_pred.setdefault(e.PredicateSpecificPreamble(e.main_predicate) + sql, set()).add(t)
  cl = m.concertina_lib
  saved = {}
  for name in ('display', 'update_display', 'HTML'):
    saved[name] = getattr(cl, name, None)
  cl.display = lambda *a, **k: None
  cl.update_display = lambda *a, **k: None
  cl.HTML = lambda s: s
  try:
    with sqlworld.Installed(m.sqlite3_logica, world):
      with lrun.muted():
        real = m.run_in_terminal.SqlRunner('sqlite')

        def runner(sql, engine, is_final):
          first = len(world.statements)
          calls.append({'sql': sql, 'is_final': is_final, 'first_statement': first + 1,
                        'preds': sorted(sql_to_pred.get(sql, []))})
          return real(sql, engine, is_final)
        res = cl.ExecuteLogicaProgram(execs, runner, 'sqlite', display_mode=display_mode)
  finally:
    for name, v in saved.items():
      if v is None:
        if hasattr(cl, name):
          delattr(cl, name)
      else:
        setattr(cl, name, v)
  return {k: (list(v[0]), [list(x) for x in v[1]]) for k, v in res.items()}, calls, execs


def check_run(case, comp, preds, world, calls, execs, res, R):
  vs = []

  def V(klass, key, msg):
    vs.append({'class': klass, 'key': key, 'message': msg})
  program = case['program']
  # (1) every table a statement reads was created earlier in this run
  created = {}
  for s in world.statements:
    for t in s.reads:
      db = t.split('.', 1)[0]
      if db in ('logica_home', 'logica_test'):
        if t not in created:
          V('inputs-first', 'read-before-create',
            'statement %d reads %s which no earlier statement of this run created: %s' % (
                s.index, t, ' '.join(s.sql.split())[:80]))
    for t in s.creates:
      created[t] = s.index
  # (2)+(3) calls per predicate
  iterations = {}
  for e in execs:
    for k, it in e.iterations.items():
      iterations[k] = it
  member_of = {}
  for k, it in iterations.items():
    for p in it['predicates']:
      member_of[p] = k
  trace = []
  both = []
  for c in calls:
    names = list(c['preds'])
    trace.append(names[0] if names else None)
    both.append((names[0] if names else None, c['is_final']))
  per = Counter(t for t in both if t[0] is not None)
  tables = set()
  for e in execs:
    tables |= set(e.table_to_export_map)
  scheduled = {t for t in trace if t}
  for k, it in iterations.items():
    members = it['predicates']
    if not any(m_ in scheduled for m_ in members):
      continue
    reps = max(it['repetitions'], 1)
    got = [t for t in trace if t in set(members)]
    present = [m_ for m_ in members if m_ in tables]
    exp = present * reps
    if got != exp:
      V('iteration-shape', 'compiled', 'iteration %s: members ran %s, declared %s x %d' % (
          k, got[:30], present, reps))
  # exactly once, counted per statement TEXT: two predicates may compile to the very same SQL
  # (P(1) :- Body and Q(1) :- P(x) after injection), and then that text must run twice
  finals_set = set(preds)
  merged = {}
  for e in execs:
    for t, sql in e.table_to_export_map.items():
      name = t if (t == e.main_predicate or t not in finals_set) else '\u2913' + t
      merged[name] = (e.PredicateSpecificPreamble(e.main_predicate) + sql, name in finals_set and t == e.main_predicate)
  expected = Counter()
  for name, (text_, fin) in merged.items():
    base = name.lstrip('\u2913')
    reps = 1
    if base in member_of and not fin:
      reps = max(iterations[member_of[base]]['repetitions'], 1)
    expected[(text_, fin)] += reps
  observed = Counter((c['sql'], c['is_final']) for c in calls if c['preds'])
  for key_ in set(expected) | set(observed):
    if expected[key_] != observed[key_]:
      who = sorted(n for n, (tx, fn) in merged.items() if (tx, fn) == key_)
      V('exactly-once', 'compiled', '%s statement of %s was run %d times, expected %d' % (
          'final' if key_[1] else 'table', who, observed[key_], expected[key_]))
  # final predicates: exactly one final call each
  finals = [c for c in calls if c['is_final']]
  if len(finals) != len(preds):
    V('exactly-once', 'finals', '%d final statements for %d requested predicates' % (len(finals), len(preds)))
  # (results) reference
  v2, checked, styles = recsim.check_results(program, R, comp, preds, res)
  vs.extend(v2)
  return vs, styles, iterations


def run_case_full(case, scratch):
  lrun.fresh_process()      # one case = the life of one (simulated) process
  program = case['program']
  info = {'fired': [], 'statements': 0, 'discard': None, 'styles': {}, 'iterations': 0,
          'renamed': False, 'alone_compared': 0, 'calls': 0, 'trace_digest': None}
  try:
    R = ref.evaluate(program)
  except OverflowError:
    info['discard'] = 'reference too large'
    return [], info
  dbpath = None
  if case['db'] == 'file':
    dbpath = os.path.join(scratch, 'concb-%s.db' % core.digest(case)[:12])
    if os.path.exists(dbpath):
      os.remove(dbpath)
  prog = recsim.with_db(program, dbpath) if dbpath else program
  text = gen.render(prog)
  preds = case['requested']
  vs = []
  try:
    try:
      comp = lrun.compiled(text, preds)
    except lrun.mods().functors.FunctorError:
      info['discard'] = 'compiler diagnostic'
      return [], info
    if case.get('faults') and dbpath:
      faults = [dict(f, file=dbpath) if f['kind'] == 'busy' else f for f in case['faults']]
      w1 = sqlworld.World(faults)
      try:
        res1, calls1, execs1 = run_recorded(comp, preds, w1, 'silent')
        failed = None
      except sqlworld.TooExpensive:
        raise
      except Exception as e:
        failed = e
      info['fired'] = [k for k, _ in w1.fired]
      info['statements'] += len(w1.statements)
      if failed is not None and not w1.fired:
        vs.append({'class': 'engine-error', 'key': type(failed).__name__,
                   'message': 'run failed without an injected fault: %r' % (failed,)})
      if failed is not None and w1.fired:
        # (5) nothing may run after the failed statement
        last = w1.statements[-1]
        if last.error is None:
          vs.append({'class': 'error-swallowed', 'key': 'compiled',
                     'message': 'statements continued after the injected engine error'})
    world = sqlworld.World()
    try:
      res, calls, execs = run_recorded(comp, preds, world, case.get('display_mode', 'silent'))
    except sqlworld.TooExpensive:
      raise
    except (Exception, AssertionError) as e:
      info['statements'] += len(world.statements)
      failing = [s_ for s_ in world.statements if s_.error]
      if case['kind'] == 'ground' and not program.get('recursive'):
        # a program that cannot be run as one script with nothing grounded either fails for
        # reasons that have nothing to do with the workflow (seed sweep 51: predicate names of
        # 100+ characters give "duplicate WITH table name"): discarded and counted
        from lsim import groundsim
        if groundsim.fails_without_grounding(prog, preds, e):
          info['discard'] = 'program fails without grounding too: %s' % type(e).__name__
          return [], info
      vs.append({'class': 'engine-error', 'key': type(e).__name__,
                 'message': 'fault-free workflow run failed: %s: %s; failing statement: %s' % (
                     type(e).__name__, str(e)[:200], failing[-1].brief() if failing else None)})
      return vs, info
    info['statements'] += len(world.statements)
    info['calls'] = len(calls)
    v, styles, iterations = check_run(case, comp, preds, world, calls, execs, res, R)
    vs.extend(v)
    info['styles'] = {','.join(k): str(s) for k, s in styles.items()}
    info['iterations'] = len(iterations)
    info['renamed'] = any((not c['is_final']) and set(c['preds']) & set(preds) for c in calls)
    info['trace_digest'] = core.digest64([c['preds'] for c in calls])
    # (6) several at once = each alone
    if len(preds) > 1:
      for p in preds[:2]:
        comp1 = lrun.compiled(text, [p])
        w = sqlworld.World()
        try:
          res1, calls1, execs1 = run_recorded(comp1, [p], w, 'silent')
        except sqlworld.TooExpensive:
          raise
        except Exception as e:
          vs.append({'class': 'engine-error', 'key': type(e).__name__,
                     'message': 'fault-free run of %s alone failed: %s: %s' % (p, type(e).__name__, str(e)[:200])})
          continue
        info['statements'] += len(w.statements)
        info['alone_compared'] += 1
        a = (res1[p][0], sqlworld.rows_key(res1[p][1]))
        b = (res[p][0], sqlworld.rows_key(res[p][1]))
        if a != b:
          vs.append({'class': 'together-vs-alone', 'key': 'rows',
                     'message': '%s requested with %s returned %s, alone %s' % (p, preds, b[1][:8], a[1][:8])})
      # the execution object of the LAST requested predicate, built on the program that had
      # already compiled the others, handed over alone (a notebook compiles several predicates
      # on one LogicaProgram and runs one)
      p = preds[-1]
      w = sqlworld.World()
      try:
        res2, _, _ = run_recorded(comp, [p], w, 'silent')
        info['statements'] += len(w.statements)
        a = (res2[p][0], sqlworld.rows_key(res2[p][1]))
        b = (res[p][0], sqlworld.rows_key(res[p][1]))
        if a != b:
          vs.append({'class': 'together-vs-alone', 'key': 'later-execution-alone',
                     'message': '%s compiled after %s on one program and run alone returned %s, together %s' % (
                         p, preds[:-1], a[1][:8], b[1][:8])})
      except sqlworld.TooExpensive:
        raise
      except Exception as e:
        vs.append({'class': 'engine-error', 'key': type(e).__name__,
                   'message': 'fault-free run of %s alone (execution built after %s on the same program) failed: %s: %s' % (
                       p, preds[:-1], type(e).__name__, str(e)[:200])})
  except sqlworld.TooExpensive:
    info['discard'] = 'statement exceeded VM step budget'
    return [], info
  finally:
    if dbpath:
      for suffix in ('', '-journal'):
        if os.path.exists(dbpath + suffix):
          os.remove(dbpath + suffix)
  return vs, info


def run_case(case, scratch):
  return run_case_full(case, scratch)[0]


def shrink(case):
  c2 = dict(case)
  for c in recsim.shrink(dict(case, schedule='fresh', stale_program=None, path='concertina')):
    c = dict(c)
    for k in ('schedule', 'stale_program', 'path'):
      c.pop(k, None)
    c['layer'] = 'B'
    yield c
  if case['program'].get('ground'):
    for g in case['program']['ground']:
      yield dict(case, program=dict(case['program'], ground=[x for x in case['program']['ground'] if x != g]))
  if case.get('display_mode', 'silent') != 'silent':
    yield dict(case, display_mode='silent')


def run_batch_into(S, log, seed, batch, tier, scratch, n, hashseed):
  for i in range(n):
    r = core.rng(seed, 'C14', 'B', batch, i)
    case = gen_case(r, hashseed)
    vs, info = run_case_full(case, scratch)
    S.runs += 1
    if info['discard']:
      S.counters['B:discarded:' + info['discard']] += 1
      continue
    S.counters['B:' + case['kind']] += 1
    S.counters['B:display:' + case.get('display_mode', 'silent')] += 1
    S.sim_time += 0.001 * info['statements']
    for f in case.get('faults') or []:
      S.faults_configured['sqlite_' + f['kind']] += 1
    for k in info['fired']:
      S.faults_fired['sqlite_' + k] += 1
    if info['iterations']:
      S.probes['B_compiled_iteration_executed'] += 1
    if info['renamed']:
      S.probes['B_requested_predicate_is_also_an_intermediate'] += 1
    if info['alone_compared']:
      S.probes['B_together_vs_alone_compared'] += info['alone_compared']
    if case['program'].get('ground'):
      S.probes['B_grounded_intermediates'] += 1
    S.states.add(info['trace_digest'] or 0)
    S.nontrivial.add(core.digest64(case))
    log.add('B', core.digest(case)[:16], info['calls'], [v['class'] for v in vs], info['fired'])
    if len([s for s in S.samples if s.get('layer') == 'B']) < 1 and info['iterations']:
      S.samples.append({'layer': 'B', 'program': gen.render(case['program']), 'requested': case['requested'],
                        'db': case['db'], 'faults': case['faults'], 'engine_calls': info['calls']})
    for v in vs:
      if len(S.violations) < 40:
        v = dict(v)
        v['case'] = case
        S.violations.append(v)
