"""Simulated environment of the workflow executor (common/concertina_lib.py).

Seams taken (all module attributes, no change to /repo):
  concertina_lib.os        -> FakeOs      (path.isfile, getenv)
  concertina_lib.open      -> fake open   (module global shadows the builtin)
  concertina_lib.datetime  -> FakeDatetimeModule (datetime.now() = simulated clock)
  concertina_lib.display / update_display / HTML -> stubs (IPython is not installed)
The engine object handed to Concertina is the simulator's: every call advances the
simulated clock, applies the environment script for that instant and may raise.
"""
import datetime as real_datetime
import io

from lsim import core


class SimEngineError(Exception):
  """The injected engine failure."""


class CallBudgetExceeded(BaseException):
  """Run() made more engine calls than any terminating execution could."""


class World(object):
  def __init__(self):
    self.fs = {}
    self.clock = 0.0          # simulated seconds since EPOCH
    self.sim_time = 0.0       # sum of forward durations
    self.probes_file = 0
    self.clock_reads = 0

  EPOCH = real_datetime.datetime(2024, 1, 1)

  def now(self):
    self.clock_reads += 1
    return self.EPOCH + real_datetime.timedelta(seconds=self.clock)


def install(cl, world, env=None):
  """Replaces the seams of module `cl` (concertina_lib) by fakes bound to `world`."""
  env = dict(env or {})

  import os as real_os

  class FakePath(object):
    """os.path over the in-memory stop-signal files; pure path functions are the real ones."""
    @staticmethod
    def isfile(p):
      world.probes_file += 1
      return p in world.fs

    @staticmethod
    def exists(p):
      world.probes_file += 1
      return p in world.fs

    @staticmethod
    def getsize(p):
      world.probes_file += 1
      if p not in world.fs:
        raise FileNotFoundError(p)
      return len(world.fs[p].encode('utf8'))

    @staticmethod
    def getmtime(p):
      if p not in world.fs:
        raise FileNotFoundError(p)
      return world.clock

    def __getattr__(self, name):
      return getattr(real_os.path, name)

  class FakeStat(object):
    def __init__(self, size):
      self.st_size = size
      self.st_mtime = world.clock
      self.st_mode = 0o100644

  class FakeOsClass(object):
    path = FakePath()
    environ = env

    @staticmethod
    def getenv(k, d=None):
      return env.get(k, d)

    @staticmethod
    def stat(p, *a, **k):
      world.probes_file += 1
      if p not in world.fs:
        raise FileNotFoundError(p)
      return FakeStat(len(world.fs[p].encode('utf8')))

    @staticmethod
    def remove(p):
      if p not in world.fs:
        raise FileNotFoundError(p)
      del world.fs[p]

    unlink = remove

    def __getattr__(self, name):
      return getattr(real_os, name)

  FakeOs = FakeOsClass()

  def fake_open(p, mode='r', *a, **k):
    if 'w' in mode or 'a' in mode or '+' in mode:
      raise PermissionError('the simulated executor only reads stop-signal files: %s' % p)
    if p not in world.fs:
      raise FileNotFoundError(p)
    if 'b' in mode:
      return io.BytesIO(world.fs[p].encode('utf8'))
    return io.StringIO(world.fs[p])

  class FakeDT(real_datetime.datetime):
    @classmethod
    def now(cls, tz=None):
      return world.now()

  class FakeDatetimeModule(object):
    datetime = FakeDT
    timedelta = real_datetime.timedelta

  cl.os = FakeOs
  cl.open = fake_open
  cl.datetime = FakeDatetimeModule
  cl.display = lambda *a, **k: None
  cl.update_display = lambda *a, **k: None
  cl.HTML = lambda s: s


class SimEngine(object):
  """Layer A engine: receives actions, owns time, files and failures."""

  def __init__(self, world, script, error_at, durations, budget):
    self.world = world
    self.script = {}
    for t, path, content in script:
      self.script.setdefault(t, []).append((path, content))
    self.error_at = error_at
    self.durations = durations or [0.0]
    self.budget = budget
    self.trace = []
    self.completion_time = {}
    self.fs_after = []       # snapshot of signal-file contents after each call

  def Run(self, action):
    name = action.get('name')
    self.trace.append(name)
    k = len(self.trace)
    if k > self.budget:
      raise CallBudgetExceeded()
    d = self.durations[(k - 1) % len(self.durations)]
    self.world.clock += d
    if d > 0:
      self.world.sim_time += d
    for path, content in self.script.get(k, []):
      if content is None:
        self.world.fs.pop(path, None)
      else:
        self.world.fs[path] = content
    self.fs_after.append(dict(self.world.fs))
    self.completion_time[name] = int(abs(d) * 1000)
    if self.error_at is not None and k == self.error_at:
      raise SimEngineError('injected engine error at call %d (%s)' % (k, name))
