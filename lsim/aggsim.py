"""C20 - built-in functions and aggregates on SQLite compute their documented meaning.

The schedule here is the ARRIVAL ORDER of rows at an aggregate.
 L1: the real UDF classes of common/sqlite3_logica.py (ArgMin, ArgMax, DistinctListAgg,
     ArrayConcatAgg) driven directly: step() in seeded permutations (all of them when
     n <= 6), with the steps of 2-3 independent groups interleaved, then finalize().
 L2: end to end through the real compiler and SQLite: aggregating rules over a table
     whose physical row order (and index) is chosen by the simulator, or over fact
     rules in a chosen order; scalar built-ins ride along as payload.
"""
import itertools
import json
import os
import sqlite3

from lsim import core
from lsim import lrun
from lsim import sqlworld
from lsim import minimise

PROPERTY = 'C20'


# =================================================================== L1

def udf_classes():
  m = lrun.mods().sqlite3_logica
  return {'ArgMin': m.ArgMin, 'ArgMax': m.ArgMax, 'DistinctListAgg': m.DistinctListAgg,
          'ArrayConcatAgg': m.ArrayConcatAgg}


def gen_group(r, agg):
  n = r.choice([0, 1, 2, 3, 3, 4, 4, 5, 6, 7, 9, 12])
  if agg in ('ArgMin', 'ArgMax') and r.random() < 0.04:
    # now and then a big group: a bounded buffer behaves differently once it has overflowed often
    n = r.choice([70, 100, 150])
    vals = r.sample(range(-500, 1000), n)
    if r.random() < 0.3:
      vals = [v + 0.5 for v in vals]
    rows = [[r.choice([0, 1, 'x', 'p%d' % i, i]), v] for i, v in enumerate(vals)]
    return {'agg': agg, 'rows': rows, 'limit': r.choice([None, 1, 2, 3, 5, 8, n - 1, n + 1])}
  if agg in ('ArgMin', 'ArgMax'):
    kind = r.choice(['int', 'int', 'float', 'str', 'mixed'])
    if kind == 'mixed':
      # integers and floats in one group (numerically distinct: 1 and 1.0 would tie)
      pool_ = r.sample(range(-20, 40), n)
      vals = [v if r.random() < 0.5 else v + 0.5 for v in pool_]
    elif kind == 'int' and r.random() < 0.25:
      # zero as the extreme value: a running best of 0 must not be mistaken for "none yet"
      vals = r.sample(range(-12, 1) if r.random() < 0.5 else range(0, 13), min(n, 12))
    elif kind == 'int':
      vals = r.sample(range(-20, 40), n)
    elif kind == 'float' and r.random() < 0.25:
      vals = [x / 2.0 for x in r.sample(range(-12, 1) if r.random() < 0.5 else range(0, 13), min(n, 12))]
    elif kind == 'float':
      vals = [x / 4.0 for x in r.sample(range(-40, 80), n)]
    else:
      vals = r.sample(['a', 'b', 'c', 'd', 'aa', 'ab', 'B', 'z', '', '10', '9', 'zz', 'y'], min(n, 13))
    args = [r.choice([0, 1, 2, 'x', 'y', 'p%d' % i, i]) for i in range(len(vals))]
    rows = [[a, v] for a, v in zip(args, vals)]
    if rows and r.random() < 0.25:
      # predicates are multisets: the very same (arg, value) row may arrive several times.
      # Identical rows tie only with each other, so the defined value stays order-independent.
      for _ in range(r.choice([1, 1, 2, 3])):
        rows.append(list(r.choice(rows)))
      n = len(rows)
    limit = r.choice([None, None, 1, 1, 2, 3, max(1, n - 1), max(1, n), n + 1, n + 5])
    return {'agg': agg, 'rows': rows, 'limit': limit}
  if agg == 'DistinctListAgg':
    pool = r.choice([[0, 1, 2, 3], ['a', 'b', 'c'], [1, 'a', 2, 'b'], list(range(20))])
    return {'agg': agg, 'rows': [[r.choice(pool)] for _ in range(n)], 'limit': None}
  rows = []
  for _ in range(n):
    if r.random() < 0.2:
      rows.append([None])
    else:
      rows.append([json.dumps([r.randint(0, 9) for _ in range(r.randint(0, 3))])])
  return {'agg': agg, 'rows': rows, 'limit': None}


def reference_l1(group, order):
  """Documented meaning; `order` only matters for ArrayConcatAgg (arrival order)."""
  agg, rows, limit = group['agg'], group['rows'], group['limit']
  if agg == 'ArgMin':
    s = sorted(rows, key=lambda x: x[1])
    return [a for a, _ in (s if limit is None else s[:limit])]
  if agg == 'ArgMax':
    s = sorted(rows, key=lambda x: x[1], reverse=True)
    return [a for a, _ in (s if limit is None else s[:limit])]
  if agg == 'DistinctListAgg':
    return sorted({x[0] for x in rows}, key=repr)
  out = []
  for i in order:
    if rows[i][0] is not None:
      out.extend(json.loads(rows[i][0]))
  return out


def run_l1(case):
  """case: {'groups': [group], 'orders': [perm per group], 'interleave': [group index per step],
  'finalize_order': [group indexes]} -> (violations, probes)."""
  classes = udf_classes()
  groups = case['groups']
  if case.get('poison'):
    # earlier in the life of this process an aggregate failed inside finalize() (tied values
    # with arguments that cannot be ordered: outside the documented domain, any exception is
    # fine) and its object was released; whatever that leaves behind must not reach the
    # aggregates that come after
    try:
      bad = classes[case['poison']]()
      bad.step(None, 5, None)
      bad.step(2, 5, None)
      bad.finalize()
    except Exception:
      pass
    bad = None
  inst = {}
  pos = [0] * len(groups)
  probes = {}
  vs = []
  try:
    for g in case['interleave']:
      grp = groups[g]
      if g not in inst:
        inst[g] = classes[grp['agg']]()
      i = case['orders'][g][pos[g]]
      pos[g] += 1
      row = grp['rows'][i]
      if grp['agg'] in ('ArgMin', 'ArgMax'):
        before = len(inst[g].result)
        top = inst[g].result[0] if before else None
        inst[g].step(row[0], row[1], grp['limit'])
        if grp['limit'] is not None and before == grp['limit']:
          probes['heap_full_arrival'] = probes.get('heap_full_arrival', 0) + 1
          if inst[g].result[0] != top:
            probes['heap_replace'] = probes.get('heap_replace', 0) + 1
        if grp['limit'] is not None and before == grp['limit'] - 1:
          probes['limit_th_insertion'] = probes.get('limit_th_insertion', 0) + 1
      else:
        inst[g].step(row[0])
    results = {}
    for g in case['finalize_order']:
      if g not in inst:
        inst[g] = classes[groups[g]['agg']]()   # SQLite finalizes a fresh instance for an empty group
      results[g] = json.loads(inst[g].finalize())
  except Exception as e:
    vs.append({'class': 'udf-exception', 'key': type(e).__name__,
               'message': 'aggregate raised %s: %s on %s' % (type(e).__name__, e, case['groups'])})
    return vs, probes
  for g, grp in enumerate(groups):
    want = reference_l1(grp, case['orders'][g])
    got = results[g]
    if grp['agg'] == 'DistinctListAgg':
      if len(got) != len(set(map(repr, got))):
        vs.append({'class': 'wrong-aggregate', 'key': grp['agg'],
                   'message': 'Set returned duplicates %s for rows %s' % (got, grp['rows'])})
      got = sorted(got, key=repr)
    if got != want:
      vs.append({'class': 'wrong-aggregate', 'key': grp['agg'],
                 'message': '%s(limit=%s) over rows %s fed in order %s returned %s, defined value %s' % (
                     grp['agg'], grp['limit'], grp['rows'], case['orders'][g], got, want)})
  return vs, probes


def interleavings(r, sizes):
  seq = []
  for g, n in enumerate(sizes):
    seq += [g] * n
  r.shuffle(seq)
  return seq


def l1_cases(r, tier):
  """One workload (1-3 groups) under many arrival orders."""
  ng = r.choice([1, 1, 2, 3])
  groups = [gen_group(r, r.choice(['ArgMin', 'ArgMin', 'ArgMax', 'ArgMax', 'DistinctListAgg', 'ArrayConcatAgg']))
            for _ in range(ng)]
  sizes = [len(g['rows']) for g in groups]
  cases = []
  if ng == 1 and sizes[0] <= (6 if tier == 'thorough' else 5):
    perms = list(itertools.permutations(range(sizes[0])))
    exhaustive = True
  else:
    perms = None
    exhaustive = False
  n_orders = len(perms) if perms else (12 if tier == 'quick' else 40)
  for j in range(n_orders):
    if perms:
      orders = [list(perms[j])]
    else:
      orders = []
      for n in sizes:
        o = list(range(n))
        r.shuffle(o)
        orders.append(o)
    fin = list(range(ng))
    r.shuffle(fin)
    cases.append({'layer': 'L1', 'groups': groups, 'orders': orders,
                  'interleave': interleavings(r, sizes), 'finalize_order': fin})
  if r.random() < 0.1:
    for c in cases:
      c['poison'] = r.choice(['ArgMin', 'ArgMax'])
  return cases, exhaustive


# =================================================================== L2

AGGS = ['Sum', 'Min', 'Max', 'Avg', 'Count', 'List', 'Set', 'ArgMin', 'ArgMax', 'ArgMinK', 'ArgMaxK', 'Array',
        'Comb', 'CombL', 'Comb2', 'Multi', 'LitKey', 'LitKey1', 'Multi2', 'Multi2', 'StrCols']
# Comb*: combine expressions in a rule body whose aggregated value is bound OUTSIDE the combine;
# Multi: several aggregates in one head. Their results are per source row / per group records.
# LitKey*: every grouping key is a literal and the body may select nothing (then: no row at all).


STR_VALUES = ['a', 'b', 'ab', 'B', 'z', 'zz', 'y', '10', '9', 'm', 'Mm', 'c', 'ca', 'x y', 'k']


def gen_table(r, vtype='int'):
  n = r.choice([1, 2, 3, 4, 5, 6, 8, 10])
  if vtype == 'float':
    vs_ = [x / 4.0 for x in r.sample(range(-32, 240), n)]   # quarters: sums are exact in binary
  elif vtype == 'str':
    vs_ = r.sample(STR_VALUES, n)
  elif r.random() < 0.2:
    vs_ = r.sample(range(-12, 1) if r.random() < 0.5 else range(0, 13), n)   # zero is the extreme value
  else:
    vs_ = r.sample(range(-8, 60), n)       # globally distinct: ties are excluded by the property
  # Avg must be exactly representable: keep values integral, compare with tolerance 1e-9
  rows = []
  for i in range(n):
    k = r.choice([0, 0, 1, 2])
    a = 'a%d' % i if r.random() < 0.8 else r.choice(['x', 'y'])
    rows.append([k, a, vs_[i], r.choice([0, 1, 1, 2, 3])])
  if r.random() < 0.25:
    # duplicate rows (a table is a multiset); copies tie only with themselves
    for _ in range(r.choice([1, 1, 2])):
      rows.append(list(r.choice(rows)))
  return rows


def reference_rows(rows, agg, thr=0):
  """Row-set reference for the predicates that are not one value per group."""
  out = []
  if agg == 'Comb':
    for k, a, v, w in rows:
      out.append([k, a, v * (w + 1)])
  elif agg == 'CombL':
    for k, a, v, w in rows:
      out.append([k, a, [a] * (w + 1)])
  elif agg == 'Comb2':
    for k, a, v, w in rows:
      out.append([k, a, v * (w + 1), w + 1])
  elif agg == 'Multi':
    groups = {}
    for k, a, v, w in rows:
      groups.setdefault(k, []).append((v, w))
    for k, g in groups.items():
      out.append([k, sum(v for v, _ in g), max(v for v, _ in g), len({w for _, w in g}),
                  sorted(w for _, w in g)])
  elif agg == 'StrCols':
    # string literals that spell the names of columns in scope ("v", "a", "w", and "value" / "key",
    # which the unnesting of a list brings into scope) are still literals
    groups = {}
    for k, a, v, w in rows:
      groups.setdefault(k, []).extend([a + 'v' + 'a' + x for x in ('value', 'w')])
    for k, g in groups.items():
      out.append([k, sorted(g)])
  elif agg == 'Multi2':
    # several extreme-seeking aggregates in ONE rule (one scan): each must follow its own row
    groups = {}
    for k, a, v, w in rows:
      groups.setdefault(k, []).append((a, v, w))
    for k, g in groups.items():
      out.append([k, max(g, key=lambda x: x[1])[0], min(g, key=lambda x: x[1])[0], max(x[2] for x in g),
                  min(x[1] for x in g)])
  elif agg in ('LitKey', 'LitKey1'):
    sel = [(v, w) for k, a, v, w in rows if w > thr]
    if sel and agg == 'LitKey':
      out.append(['big', sum(v for v, _ in sel), len({w for _, w in sel}), sorted(w for _, w in sel)])
    elif sel:
      out.append(['tag', sum(v for v, _ in sel)])
  return sorted(out, key=repr)


def reference_l2(rows, agg, kk):
  """Documented meaning per group key. rows: [k, a, v, w]."""
  groups = {}
  for k, a, v, w in rows:
    groups.setdefault(k, []).append((a, v, w))
  out = {}
  for k, g in groups.items():
    vals = [v for _, v, _ in g]
    if agg == 'Sum':
      out[k] = sum(vals)
    elif agg == 'Min':
      out[k] = min(vals)
    elif agg == 'Max':
      out[k] = max(vals)
    elif agg == 'Avg':
      out[k] = sum(vals) / float(len(vals))
    elif agg == 'Count':
      out[k] = len({w for _, _, w in g})
    elif agg == 'List':
      out[k] = sorted(w for _, _, w in g)
    elif agg == 'Set':
      out[k] = sorted({w for _, _, w in g})
    elif agg == 'ArgMin':
      out[k] = min(g, key=lambda x: x[1])[0]
    elif agg == 'ArgMax':
      out[k] = max(g, key=lambda x: x[1])[0]
    elif agg == 'ArgMinK':
      out[k] = [a for a, _, _ in sorted(g, key=lambda x: x[1])[:kk]]
    elif agg == 'ArgMaxK':
      out[k] = [a for a, _, _ in sorted(g, key=lambda x: x[1], reverse=True)[:kk]]
    elif agg == 'Array':
      out[k] = [a for a, _, _ in sorted(g, key=lambda x: x[1])]
  return out


def agg_rule(agg, src, kk, src2=None, thr=0):
  if src2:
    # multi-body aggregation: the same head fed by two rules over two sources
    one = agg_rule(agg, src, kk, thr=thr)
    lines = one.split('\n')
    last = lines[-1]
    return '\n'.join(lines + [last.replace('%s(k:, a:, v:, w:)' % src, '%s(k:, a:, v:, w:)' % src2)])
  body = '%s(k:, a:, v:, w:)' % src
  if agg == 'Comb':
    return 'TComb(k, a, s) :- %s, s += (v :- x in Range(w + 1));' % body
  if agg == 'CombL':
    return 'TCombL(k, a, l) :- %s, l List= (a :- x in Range(w + 1));' % body
  if agg == 'Comb2':
    return 'TComb2(k, a, s, n) :- %s, s += (v :- x in Range(w + 1)), n += (1 :- x in Range(w + 1));' % body
  if agg == 'StrCols':
    return 'TStrCols(k) List= a ++ "v" ++ "a" ++ x :- %s, x in ["value", "w"];' % body
  if agg == 'Multi2':
    return 'TMulti2(k:, best? ArgMax= a -> v, worst? ArgMin= a -> v, mw? Max= w, lo? Min= v) distinct :- %s;' % body
  if agg == 'LitKey':
    return 'TLitKey(tag: "big", s? += v, c? Count= w, l? List= w) distinct :- %s, w > %d;' % (body, thr)
  if agg == 'LitKey1':
    return 'TLitKey1("tag") += v :- %s, w > %d;' % (body, thr)
  if agg == 'Multi':
    return 'TMulti(k:, s? += v, m? Max= v, c? Count= w, l? List= w) distinct :- %s;' % body
  if agg == 'Sum':
    return 'TSum(k) += v :- %s;' % body
  if agg == 'Min':
    return 'TMin(k) Min= v :- %s;' % body
  if agg == 'Max':
    return 'TMax(k) Max= v :- %s;' % body
  if agg == 'Avg':
    return 'TAvg(k) Avg= v :- %s;' % body
  if agg == 'Count':
    return 'TCount(k) Count= w :- %s;' % body
  if agg == 'List':
    return 'TList(k) List= w :- %s;' % body
  if agg == 'Set':
    return 'TSet(k) Set= w :- %s;' % body
  if agg == 'ArgMin':
    return 'TArgMin(k) ArgMin= a -> v :- %s;' % body
  if agg == 'ArgMax':
    return 'TArgMax(k) ArgMax= a -> v :- %s;' % body
  if agg == 'ArgMinK':
    return 'ArgMinKK(x) = ArgMinK(x, %d);\nTArgMinK(k) ArgMinKK= a -> v :- %s;' % (kk, body)
  if agg == 'ArgMaxK':
    return 'ArgMaxKK(x) = ArgMaxK(x, %d);\nTArgMaxK(k) ArgMaxKK= a -> v :- %s;' % (kk, body)
  if agg == 'Array':
    return 'TArray(k) Array= v -> a :- %s;' % body
  raise ValueError(agg)


def lit(x):
  if isinstance(x, str):
    if '"' not in x and '\n' not in x:
      return '"%s"' % x        # as typed: non-ASCII characters and backslashes stay themselves
    return json.dumps(x, ensure_ascii=False)
  if isinstance(x, float):
    return repr(x) if x >= 0 else '(%r)' % x
  if isinstance(x, list):
    return '[' + ', '.join(lit(y) for y in x) + ']'
  if isinstance(x, int) and x < 0:
    return '(%d)' % x
  return str(x)


def rand_arith(r, depth, ints, var=None):
  """A random arithmetic expression tree over small ints: + - * unary minus, Least/Greatest,
  ToInt64(ToString()), optionally a variable. Returns (text, value, precedence) with
  precedence 3 = atom, 2 = product, 1 = sum/difference, 0 = unary minus. Parentheses are
  dropped only where the documented precedence (* over + -, left to right) makes them
  redundant; a unary minus is always followed by a literal, a variable or a parenthesis
  (`-F(x)` is a call of a predicate named "-F" to the parser, not a negation; calls have
  precedence 2.9 here so that they are parenthesised under a unary minus)."""
  if depth <= 0 or r.random() < 0.2:
    if var is not None and r.random() < 0.4:
      return var[0], var[1], 3
    a = r.choice(ints)
    return lit(a), a, 3
  k = r.choice(['+', '-', '*', '-', 'neg', 'neg', 'call', 'paren'])
  if k == 'neg':
    t, v, p_ = rand_arith(r, depth - 1, ints, var)
    return '-' + (t if p_ == 3 and r.random() < 0.5 else '(%s)' % t), -v, 0
  if k == 'paren':
    t, v, _ = rand_arith(r, depth - 1, ints, var)
    return '(%s)' % t, v, 3
  if k == 'call':
    f = r.choice(['Least', 'Greatest', 'ToInt64'])
    if f == 'ToInt64':
      t, v, _ = rand_arith(r, depth - 1, ints, var)
      return 'ToInt64(ToString(%s))' % t, v, 2.9
    args = [rand_arith(r, depth - 1, ints, var) for _ in range(r.choice([2, 2, 3]))]
    vals = [x[1] for x in args]
    return '%s(%s)' % (f, ', '.join(x[0] for x in args)), (min(vals) if f == 'Least' else max(vals)), 2.9
  lt, lv, lp = rand_arith(r, depth - 1, ints, var)
  rt, rv, rp = rand_arith(r, depth - 1, ints, var)
  mine = 2 if k == '*' else 1
  # left operand: a unary minus may lead a sum or a product; lower precedence needs parentheses
  if (lp < mine and lp != 0) or r.random() < 0.25:
    lt = '(%s)' % lt
  if rp <= mine or rt.startswith('-') or r.random() < 0.25:
    rt = '(%s)' % rt      # also: the parser does not read `a - -b` / `a * -b`
  v = lv + rv if k == '+' else lv - rv if k == '-' else lv * rv
  return '%s %s %s' % (lt, k, rt), v, mine


def gen_scalars(r, n):
  """Cells (name, Logica expression, defined value) of the scalar built-ins; small domains
  including the empty list and zero. Only cells whose meaning the documentation fixes."""
  cells = []
  ints = [0, 1, 2, 3, 5, 7, -1, -4, 10]
  lists = [[], [0], [3, 1, 2], [5, 5, 1], [2, 7, 1, 8], [-1, 0, 4]]
  strs = ['', 'a', 'ab', 'a,b', 'x y', 'fire', '1,2,3', ',', 'value', 'key', '\u00e9', '\u00fc,\u00e9', '\u0436', 'a\\b']
  for _ in range(n):
    f = r.choice(['Range', 'Size', 'Element', 'Subscript', 'Sort', 'ArrayConcat', 'Concat', 'Join',
                  'Split', 'ToString', 'ToInt64', 'Least', 'Greatest', 'Plus', 'Minus', 'Times',
                  'SizeRange', 'InFilter', 'Cmp', 'Empty', 'Empty', 'Boundary', 'Boundary', 'Compose', 'Nested', 'Nested',
                  'Strings', 'Strings', 'AggOfAgg', 'Member', 'Member', 'BigInt'])
    if f == 'BigInt':
      # 64-bit integers that a double cannot hold exactly
      big = r.choice([2 ** 53 + 1, 2 ** 53 + 3, 2 ** 62 + 1, 2 ** 63 - 1, -(2 ** 53) - 1, 10 ** 17 + 7])
      other = big - r.choice([1, 2]) if big > 0 else big + 1
      which = r.choice(['minus', 'cmp', 'tostring', 'roundtrip', 'greatest', 'least', 'plus0'])
      if which == 'minus':
        cells.append(['Minus', '%s - %s' % (lit(big), lit(other)), big - other])
      elif which == 'cmp':
        op = r.choice(['<', '<=', '==', '!=', '>', '>='])
        truth = {'<': big < other, '<=': big <= other, '==': big == other, '!=': big != other,
                 '>': big > other, '>=': big >= other}[op]
        cells.append(['Cmp', ('List', 'x', 'x in [1], %s %s %s' % (lit(big), op, lit(other))), [1] if truth else []])
      elif which == 'tostring':
        cells.append(['ToString', 'ToString(%s)' % lit(big), str(big)])
      elif which == 'roundtrip':
        cells.append(['ToInt64', ('List', 'x', 'x in [1], ToInt64(%s) == %s' % (lit(str(big)), lit(big))), [1]])
      elif which == 'greatest':
        cells.append(['Greatest', 'Greatest(%s, %s)' % (lit(other), lit(big)), max(big, other)])
      elif which == 'least':
        cells.append(['Least', 'Least(%s, %s)' % (lit(big), lit(other)), min(big, other)])
      else:
        cells.append(['Plus', '%s + 0' % lit(big), big])
    elif f == 'Member':
      # `item in list` as a condition, the list coming from a literal or from another built-in;
      # strings include non-ASCII characters and a backslash
      kind = r.choice(['str', 'str', 'int'])
      if kind == 'str':
        base = r.choice([['a', 'b'], ['\u00e9', '\u00fc'], ['x', '\u00e9', 'a\\b'], ['\u0436'], ['a\\b', 'c'], ['', 'a']])
        item = r.choice(base + ['a', '\u00e9', 'zz', 'a\\b', ''])
        srcs = [lit(base), 'Sort(%s)' % lit(base), 'ArrayConcat(%s, ["q"])' % lit(base)]
        if all(',' not in x and x for x in base):
          srcs.append('Split(%s, ",")' % lit(','.join(base)))
      else:
        base = r.choice([[1, 2, 3], [0], [-1, 5], [10, 2]])
        item = r.choice(base + [0, 7, -1])
        srcs = [lit(base), 'Sort(%s)' % lit(base), 'ArrayConcat(%s, [99])' % lit(base), 'Range(%d)' % max(base)]
      src = r.choice(srcs)
      if src.startswith('Range('):
        truth = item in list(range(max(base)))
      else:
        truth = item in base
      if r.random() < 0.5:
        # as a condition of a rule body (compiled to a join over the list's elements)
        cells.append(['In', ('List', 'x', 'x in [1], %s in %s' % (lit(item), src)), [1] if truth else []])
      else:
        # as a value (compiled to the membership function)
        cells.append(['In', '(%s in %s)' % (lit(item), src), 1 if truth else 0])
    elif f == 'Strings':
      sep = r.choice([',', '--', ' ', 'ab'])
      parts = r.choice([['a', 'b', ''], ['', 'a'], ['', ''], ['x'], ['a', '', 'b'], ['1', '22', '333'], ['ab', 'ba'],
                        ['\u00e9', '\u00fc'], ['\u0436', '', 'z'], ['a\\b', 'c']])
      if any(sep in p_ for p_ in parts):
        parts = ['x', 'y', '']
      text_ = sep.join(parts)
      which = r.choice(['Split', 'RoundTrip', 'SizeSplit', 'ConcatEmpty', 'ToStringStr', 'JoinInts', 'ConcatToString'])
      if which == 'Split':
        cells.append(['Split', 'Split(%s, %s)' % (lit(text_), lit(sep)), text_.split(sep)])
      elif which == 'RoundTrip':
        cells.append(['Join', 'Join(Split(%s, %s), %s)' % (lit(text_), lit(sep), lit(sep)), text_])
      elif which == 'SizeSplit':
        cells.append(['Size', 'Size(Split(%s, %s))' % (lit(text_), lit(sep)), len(text_.split(sep))])
      elif which == 'ConcatEmpty':
        a = r.choice(strs)
        cells.append(['Concat', '"" ++ %s ++ ""' % lit(a), a])
      elif which == 'ToStringStr':
        a = r.choice(['abc', '', '12', 'x y'])
        cells.append(['ToString', 'ToString(%s)' % lit(a), a])
      elif which == 'JoinInts':
        l = r.choice([[1, 2, 3], [10], [0, 0], [-1, 5]])
        cells.append(['Join', 'Join(%s, %s)' % (lit(l), lit(sep)), sep.join(map(str, l))])
      else:
        a, b = r.choice(ints), r.choice(strs)
        cells.append(['Concat', 'ToString(%s) ++ %s' % (lit(a), lit(b)), str(a) + b])
    elif f == 'AggOfAgg':
      n_, m_ = r.choice([1, 2, 3, 4]), r.choice([1, 2, 3])
      which = r.choice(['SizeSet', 'SizeList', 'FirstOfSortedSet', 'LastOfSortedList'])
      sums = [x + y for x in range(n_) for y in range(m_)]
      body = 'x + y :- x in Range(%d), y in Range(%d)' % (n_, m_)
      if which == 'SizeSet':
        cells.append(['Size', ('Where', 'Size(s)', 's Set= (%s)' % body), len(set(sums))])
      elif which == 'SizeList':
        cells.append(['Size', ('Where', 'Size(s)', 's List= (%s)' % body), len(sums)])
      elif which == 'FirstOfSortedSet':
        cells.append(['Element', ('Where', 'Element(Sort(s), 0)', 's Set= (%s)' % body), min(sums)])
      else:
        cells.append(['Element', ('Where', 'Element(Sort(s), %d)' % (len(sums) - 1), 's List= (%s)' % body), max(sums)])
    elif f == 'Nested' and r.random() < 0.6:
      # random expression trees (fixed forms are a blind spot: seeded change C20k)
      if r.random() < 0.4:
        xv = r.choice(ints)
        t, v, _ = rand_arith(r, r.choice([1, 2, 3]), ints, var=('x', xv))
        cells.append(['Nested', ('Where', t, 'x == %s' % lit(xv)), v])
      else:
        t, v, _ = rand_arith(r, r.choice([1, 2, 3]), ints)
        cells.append(['Nested', t, v])
    elif f == 'Nested':
      a, b, c = r.choice(ints), r.choice(ints), r.choice(ints)
      form, val = r.choice([
          ('%s - (%s - %s)', a - (b - c)), ('%s - %s - %s', a - b - c), ('%s * (%s + %s)', a * (b + c)),
          ('%s * %s + %s', a * b + c), ('%s - %s * %s', a - b * c), ('(%s - %s) * %s', (a - b) * c),
          ('%s + (%s - %s) * %s' % ('%s', '%s', '%s', lit(2)), a + (b - c) * 2),
          ('0 - %s - %s + %s', 0 - a - b + c),
          ('-(%s + %s) + %s', -(a + b) + c), ('-(%s - %s) - %s', -(a - b) - c),
          ('%s - (-(%s - %s))', a - (-(b - c))), ('-(%s * %s) + %s', -(a * b) + c)])
      cells.append(['Nested', form % (lit(a), lit(b), lit(c)), val])
    elif f == 'Boundary':
      which = r.choice(['LastElement', 'LastSubscript', 'SortStr', 'InStr', 'EqualLeast', 'EqualGreatest',
                        'RoundTripInt', 'RoundTripStr', 'OneElementSort', 'OneElementJoin', 'NegTimes',
                        'SortDup', 'NumLikeStrings'])
      l = r.choice([x for x in lists if x])
      if which == 'LastElement':
        cells.append(['Element', 'Element(%s, %d)' % (lit(l), len(l) - 1), l[-1]])
      elif which == 'LastSubscript':
        cells.append(['Subscript', ('Where', 'l[%d]' % (len(l) - 1), 'l == %s' % lit(l)), l[-1]])
      elif which == 'SortStr':
        sl = r.choice([['b', 'a', 'c'], ['b', 'B', 'a'], ['10', '9', '1'], ['x', '']])
        cells.append(['Sort', 'Sort(%s)' % lit(sl), sorted(sl)])
      elif which == 'InStr':
        sl = r.choice([['b', 'a', 'c'], ['x', ''], ['10', '9']])
        cells.append(['InFilter', ('List', 'x', 'x in %s' % lit(sl)), sorted(sl)])
      elif which == 'EqualLeast':
        a = r.choice(ints)
        cells.append(['Least', 'Least(%s, %s)' % (lit(a), lit(a)), a])
      elif which == 'EqualGreatest':
        a = r.choice(ints)
        cells.append(['Greatest', 'Greatest(%s, %s, %s)' % (lit(a), lit(a), lit(a)), a])
      elif which == 'RoundTripInt':
        a = r.choice(ints)
        cells.append(['ToInt64', 'ToInt64(ToString(%s))' % lit(a), a])
      elif which == 'RoundTripStr':
        a = r.choice(ints)
        cells.append(['ToString', 'ToString(ToInt64(%s))' % lit(str(a)), str(a)])
      elif which == 'OneElementSort':
        cells.append(['Sort', 'Sort([7])', [7]])
      elif which == 'OneElementJoin':
        cells.append(['Join', 'Join(["solo"], ", ")', 'solo'])
      elif which == 'NegTimes':
        a, b = r.choice([-1, -4]), r.choice([-1, -4, 3])
        cells.append(['Times', '%s * %s' % (lit(a), lit(b)), a * b])
      elif which == 'SortDup':
        cells.append(['Sort', 'Sort([2, 1, 2, 1])', [1, 1, 2, 2]])
      else:
        cells.append(['Concat', '"1" ++ "2"', '12'])
    elif f == 'Compose':
      # the same list text through several built-ins of one program: a built-in must not
      # disturb what another one sees
      l = r.choice([x for x in lists if len(x) >= 2])
      cells.append(['Sort', 'Sort(%s)' % lit(l), sorted(l)])
      cells.append(['Join', 'Join(%s, "-")' % lit(l), '-'.join(map(str, l))])
      cells.append(['ArrayConcat', 'ArrayConcat(%s, [0])' % lit(l), l + [0]])
      cells.append(['Element', 'Element(%s, 0)' % lit(l), l[0]])
      cells.append(['Size', 'Size(ArrayConcat(%s, %s))' % (lit(l), lit(l)), 2 * len(l)])
    elif f == 'Empty':
      # the empty list (written Range(0)) through every list built-in, and zero
      sep = r.choice([',', '', '--'])
      which = r.choice(['Join', 'JoinConcat', 'Sort', 'ConcatL', 'ConcatR', 'ConcatBoth', 'In', 'SizeSort',
                        'Times0', 'Least0', 'ToString0', 'Element0'])
      if which == 'Join':
        cells.append(['Join', 'Join(Range(0), %s)' % lit(sep), ''])
      elif which == 'JoinConcat':
        cells.append(['Join', 'Join(Range(0), %s) ++ "!"' % lit(sep), '!'])
      elif which == 'Sort':
        cells.append(['Sort', 'Sort(Range(0))', []])
      elif which == 'ConcatL':
        cells.append(['ArrayConcat', 'ArrayConcat(Range(0), [1, 2])', [1, 2]])
      elif which == 'ConcatR':
        cells.append(['ArrayConcat', 'ArrayConcat([1, 2], Range(0))', [1, 2]])
      elif which == 'ConcatBoth':
        cells.append(['ArrayConcat', 'Size(ArrayConcat(Range(0), Range(0)))', 0])
      elif which == 'In':
        cells.append(['InFilter', ('List', 'x', 'x in Range(0)'), []])
      elif which == 'SizeSort':
        cells.append(['Size', 'Size(Sort(Range(0)))', 0])
      elif which == 'Times0':
        a = r.choice(ints)
        cells.append(['Times', '%s * 0' % lit(a), 0])
      elif which == 'Least0':
        cells.append(['Least', 'Least(0, 0)', 0])
      elif which == 'ToString0':
        cells.append(['ToString', 'ToString(0)', '0'])
      else:
        cells.append(['Element', 'Element(Range(1), 0)', 0])
    elif f == 'Range':
      n_ = r.choice([0, 0, 1, 2, 3, 5, 8, -1, -3])
      cells.append([f, 'Range(%s)' % lit(n_), list(range(n_))])
    elif f == 'SizeRange':
      n_ = r.choice([0, 1, 4, 9, -2])
      cells.append([f, 'Size(Range(%s))' % lit(n_), max(n_, 0)])
    elif f == 'Size':
      l = r.choice(lists)
      cells.append([f, 'Size(%s)' % lit(l), len(l)]) if l else cells.append([f, 'Size(Range(0))', 0])
    elif f in ('Element', 'Subscript'):
      l = r.choice([x for x in lists if x])
      i = r.randrange(len(l))
      if f == 'Element':
        cells.append([f, 'Element(%s, %d)' % (lit(l), i), l[i]])
      else:
        cells.append([f, ('Where', 'l[%d]' % i, 'l == %s' % lit(l)), l[i]])
    elif f == 'Sort':
      l = r.choice([x for x in lists if x])
      cells.append([f, 'Sort(%s)' % lit(l), sorted(l)])
    elif f == 'ArrayConcat':
      a, b = r.choice([x for x in lists if x]), r.choice([x for x in lists if x])
      cells.append([f, 'ArrayConcat(%s, %s)' % (lit(a), lit(b)), a + b])
    elif f == 'Concat':
      a, b = r.choice(strs), r.choice(strs)
      cells.append([f, '%s ++ %s' % (lit(a), lit(b)), a + b])
    elif f == 'Join':
      l = r.choice([['a'], ['a', 'b'], ['x', '', 'y'], ['1', '2', '3']])
      s = r.choice([',', '', ' - '])
      cells.append([f, 'Join(%s, %s)' % (lit(l), lit(s)), s.join(l)])
    elif f == 'Split':
      s = r.choice(['a', 'a,b', '1,2,3', 'x y', 'a,,b'])
      sep = r.choice([',', ' '])
      cells.append([f, 'Split(%s, %s)' % (lit(s), lit(sep)), s.split(sep)])
    elif f == 'ToString':
      i = r.choice(ints)
      cells.append([f, 'ToString(%s)' % lit(i), str(i)])
    elif f == 'ToInt64':
      i = r.choice(ints)
      cells.append([f, 'ToInt64(%s)' % lit(str(i)), i])
    elif f in ('Least', 'Greatest'):
      xs = [r.choice(ints) for _ in range(r.choice([2, 3, 4]))]
      cells.append([f, '%s(%s)' % (f, ', '.join(lit(x) for x in xs)), min(xs) if f == 'Least' else max(xs)])
    elif f in ('Plus', 'Minus', 'Times'):
      a, b = r.choice(ints), r.choice(ints)
      op = {'Plus': '+', 'Minus': '-', 'Times': '*'}[f]
      cells.append([f, '%s %s %s' % (lit(a), op, lit(b)), {'+': a + b, '-': a - b, '*': a * b}[op]])
    elif f == 'InFilter':
      l = r.choice([x for x in lists if x])
      t = r.choice(ints)
      cells.append([f, ('List', 'x', 'x in %s, x > %s' % (lit(l), lit(t))), sorted(x for x in l if x > t)])
    elif f == 'Cmp':
      a, b = r.choice(ints), r.choice(ints)
      op = r.choice(['<', '<=', '==', '!=', '>', '>='])
      truth = {'<': a < b, '<=': a <= b, '==': a == b, '!=': a != b, '>': a > b, '>=': a >= b}[op]
      cells.append([f, ('List', 'x', 'x in [1], %s %s %s' % (lit(a), op, lit(b))), [1] if truth else []])
  return cells


EXCLUDED_CELLS = [
    'integer / (engine-dependent: SQLite truncates, BigQuery divides exactly)',
    '% on negative operands', '^ (float result formatting)', 'Sum/Avg over floats',
    'Element/subscript out of range', 'ArgMin/ArgMax/Array with tied values (excluded by the property)',
    'List element order (only the multiset is defined)', 'Split with an empty separator', 'ToInt64 of a non-numeric string',
    'ANY_VALUE/TakeFirst (any value is correct by definition)',
    '== between two list values (lists are JSON text on SQLite; equality of lists is not documented)',
    'lists of lists, lists as elements of `in`', 'escape sequences inside string literals']


def build_program(case, dbpath):
  lines = ['@Engine("sqlite", type_checking: false);']
  split = case.get('split')
  src2 = None
  if case['mode'] == 'table':
    lines.append('@AttachDatabase("mydb", "%s");' % dbpath)
    src = 'mydb.D'
    if split is not None:
      src2 = 'mydb.D2'
  else:
    src = 'D'
    rows = case['rows']
    first = rows if split is None else rows[:split]
    for k, a, v, w in first:
      lines.append('D(k: %s, a: %s, v: %s, w: %s);' % (lit(k), lit(a), lit(v), lit(w)))
    if split is not None:
      src2 = 'D2'
      for k, a, v, w in rows[split:]:
        lines.append('D2(k: %s, a: %s, v: %s, w: %s);' % (lit(k), lit(a), lit(v), lit(w)))
  preds = []
  for agg in case['aggs']:
    lines.append(agg_rule(agg, src, case['kk'], src2, thr=case.get('thr', 0)))
    preds.append('T' + agg)
  if case['scalars']:
    for i, (name, expr, _) in enumerate(case['scalars']):
      if isinstance(expr, (list, tuple)) and expr[0] == 'Where':
        lines.append('S("c%d") = %s :- %s;' % (i, expr[1], expr[2]))
      elif isinstance(expr, (list, tuple)):
        lines.append('S("c%d") = r :- r List= (%s :- %s);' % (i, expr[1], expr[2]))
      else:
        lines.append('S("c%d") = %s;' % (i, expr))
    preds.append('S')
  return '\n'.join(lines) + '\n', preds


def make_table(dbpath, rows, index, split=None):
  if os.path.exists(dbpath):
    os.remove(dbpath)
  c = sqlite3.connect(dbpath)
  c.execute('CREATE TABLE D (k INTEGER, a TEXT, v, w INTEGER)')
  c.execute('CREATE TABLE D2 (k INTEGER, a TEXT, v, w INTEGER)')
  for i, row in enumerate(rows):
    c.execute('INSERT INTO %s VALUES (?, ?, ?, ?)' % ('D2' if split is not None and i >= split else 'D'), row)
  if index:
    c.execute('CREATE INDEX d_idx ON D (%s)' % index)
  c.commit()
  c.close()


def decode(x):
  if isinstance(x, str) and x[:1] in '[{':
    try:
      return json.loads(x)
    except ValueError:
      return x
  return x


WARMED = set()


def warm(engines):
  """The process has compiled programs for other engines before (a notebook that talks to several
  databases): whatever those compiles leave behind must not reach the SQLite templates."""
  m = lrun.mods()
  for eng in engines:
    if eng in WARMED:
      continue
    WARMED.add(eng)
    text = ('@Engine("%s");\nD(1, "a"); D(2, "b");\n'
            'W(x, ArrayConcat([x], [x + 1]), Size([x]), ToString(x) ++ y, Least(x, 2), Greatest(x, 2)) :- D(x, y);\n'
            'V() List= x :- D(x, y);\nU(Sort([2, 1]), Join(["a"], "-"), Range(2)) :- D(x, y), x in [1, 2];\n' % eng)
    with lrun.muted():
      try:
        prog = m.universe.LogicaProgram(m.parse.ParseFile(text)['rule'])
        for p_ in ('W', 'V', 'U'):
          try:
            prog.FormattedPredicateSql(p_)
          except Exception:
            pass      # a built-in the dialect lacks: still a compile that ran
      except Exception:
        pass


def run_l2(case, scratch):
  dbpath = os.path.join(scratch, 'agg-%s.db' % core.digest(case)[:12])
  vs = []
  warm(case.get('warm') or [])
  try:
    if case['mode'] == 'table':
      make_table(dbpath, case['rows'], case.get('index'), case.get('split'))
    text, preds = build_program(case, dbpath)
    try:
      comp = lrun.compiled(text, preds)
      world = sqlworld.World()
      res = lrun.run_concertina(world, comp, preds)
    except Exception as e:
      vs.append({'class': 'exception', 'key': type(e).__name__,
                 'message': '%s: %s for program\n%s' % (type(e).__name__, str(e)[:300], text)})
      return vs
    for agg in case['aggs']:
      hdr, rows = res['T' + agg]
      if agg in ('Comb', 'CombL', 'Comb2', 'Multi', 'LitKey', 'LitKey1', 'Multi2', 'StrCols'):
        got_rows = []
        for row in rows:
          row = [decode(x) for x in row]
          if agg == 'Multi':
            row[4] = sorted(row[4]) if isinstance(row[4], list) else row[4]
          if agg == 'LitKey':
            row[3] = sorted(row[3]) if isinstance(row[3], list) else row[3]
          if agg == 'StrCols':
            row[1] = sorted(row[1]) if isinstance(row[1], list) else row[1]
          got_rows.append(row)
        got_rows = sorted(got_rows, key=repr)
        want_rows = reference_rows(case['rows'], agg, case.get('thr', 0))
        if got_rows != want_rows:
          vs.append({'class': 'wrong-aggregate', 'key': agg,
                     'message': '%s over rows %s (mode %s, index %s) returned %s, defined value %s' % (
                         agg, case['rows'], case['mode'], case.get('index'), got_rows, want_rows)})
        continue
      want = reference_l2(case['rows'], agg, case['kk'])
      got = {}
      for row in rows:
        if row[0] in got:
          vs.append({'class': 'wrong-aggregate', 'key': agg, 'message': '%s: group %s returned twice' % (agg, row[0])})
        got[row[0]] = decode(row[1])
      if agg in ('List', 'Set'):
        got = {k: (sorted(v) if isinstance(v, list) else v) for k, v in got.items()}
      if agg in ('Avg', 'Sum'):
        ok = set(got) == set(want) and all(
            isinstance(got[k], (int, float)) and abs(got[k] - want[k]) < 1e-9 for k in want)
      else:
        ok = got == want
      if not ok:
        vs.append({'class': 'wrong-aggregate', 'key': agg,
                   'message': '%s over rows %s (order as given, index %s, mode %s) returned %s, defined value %s' % (
                       agg, case['rows'], case.get('index'), case['mode'], got, want)})
    if case['scalars']:
      hdr, rows = res['S']
      got = {row[0]: decode(row[1]) for row in rows}
      for i, (name, expr, want) in enumerate(case['scalars']):
        g = got.get('c%d' % i, 'NO ROW')
        if isinstance(expr, (list, tuple)) and expr[0] == 'List':
          if g == 'NO ROW' and want == []:
            g = []    # an aggregate over no rows yields no row: the empty list
          g = sorted(g) if isinstance(g, list) else g
        if g != want or (type(g) is not type(want) and not (isinstance(g, (int, float)) and isinstance(want, (int, float)))):
          vs.append({'class': 'wrong-scalar', 'key': name,
                     'message': '%s evaluated to %r, defined value %r' % (expr, g, want)})
  finally:
    for suffix in ('', '-journal'):
      if os.path.exists(dbpath + suffix):
        os.remove(dbpath + suffix)
  return vs


NUMERIC_ONLY = ('Sum', 'Avg', 'Comb', 'Comb2', 'Multi', 'LitKey', 'LitKey1')


def l2_cases(r, tier):
  vtype = r.choice(['int', 'int', 'int', 'float', 'str'])
  rows = gen_table(r, vtype)
  pool = [a for a in AGGS if vtype == 'int' or (vtype == 'float' and a not in ('Multi', 'LitKey')) or a not in NUMERIC_ONLY]
  aggs = r.sample(pool, r.choice([2, 3, 4]))
  kk = r.choice([1, 2, 2, 3, 5])
  scalars = gen_scalars(r, r.choice([0, 4, 8]))
  thr = r.choice([-1, 0, 1, 2, 3, 3])     # w is 0..3: with 3 the literal-key rules select nothing
  cases = []
  n_orders = 3
  for j in range(n_orders):
    o = list(rows)
    if j == 1:
      o.sort(key=lambda x: x[2])            # ascending by value: best case for the heaps
    elif j == 2:
      o.sort(key=lambda x: x[2], reverse=True)    # descending: every arrival replaces
    else:
      r.shuffle(o)
    # two-body aggregation: both sources non-empty (an empty fact predicate is not a program)
    split = r.randint(1, len(o) - 1) if (len(o) >= 2 and r.random() < 0.35) else None
    cases.append({'layer': 'L2', 'rows': o, 'aggs': aggs, 'kk': kk, 'split': split, 'thr': thr,
                  'mode': r.choice(['table', 'table', 'facts']),
                  'index': r.choice([None, None, 'k', 'v', 'a', 'v DESC']),
                  'scalars': scalars if j == 0 else []})
  return cases


# =================================================================== engine interface

def run_case(case, scratch):
  if case['layer'] == 'L1':
    return run_l1(case)[0]
  return run_l2(case, scratch)


def replay_priority(case):
  return 0 if (case.get('poison') or case.get('warm')) else 1


def shrink(case):
  if case['layer'] == 'L1':
    groups = case['groups']
    if len(groups) > 1:
      for g in range(len(groups)):
        yield {'layer': 'L1', 'groups': [groups[g]], 'orders': [case['orders'][g]],
               'interleave': [0] * len(groups[g]['rows']), 'finalize_order': [0], 'poison': case.get('poison')}
    if case.get('poison'):
      yield dict(case, poison=None)
    for g, grp in enumerate(groups):
      order = case['orders'][g]
      for pos in range(len(order)):
        idx = order[pos]
        rows2 = [x for j, x in enumerate(grp['rows']) if j != idx]
        o2 = [(i if i < idx else i - 1) for j, i in enumerate(order) if j != pos]
        g2 = dict(grp, rows=rows2)
        groups2 = [g2 if j == g else x for j, x in enumerate(groups)]
        orders2 = [o2 if j == g else x for j, x in enumerate(case['orders'])]
        inter = list(case['interleave'])
        # remove the pos-th occurrence of g
        seen = -1
        for j, x in enumerate(inter):
          if x == g:
            seen += 1
            if seen == pos:
              del inter[j]
              break
        yield dict(case, groups=groups2, orders=orders2, interleave=inter)
    return
  if case['scalars']:
    yield dict(case, scalars=[])
    for s in minimise.drop_chunks(case['scalars']):
      yield dict(case, scalars=s)
  if len(case['aggs']) > 1:
    for a in case['aggs']:
      yield dict(case, aggs=[a])
  elif case['aggs'] and case['scalars']:
    yield dict(case, aggs=[])
  if case.get('warm'):
    yield dict(case, warm=[])
  if case.get('index'):
    yield dict(case, index=None)
  if case.get('split') is not None:
    yield dict(case, split=None)
  if case.get('split') is None:
    for rows in minimise.drop_chunks(case['rows'], 1):
      yield dict(case, rows=rows)


def plan(tier):
  if tier == 'quick':
    return {'batches': 48, 'timeout': 1500, 'l1_workloads': 1500, 'l2_workloads': 25, 'wall_budget_s': 240}
  return {'batches': 480, 'timeout': 3000, 'l1_workloads': 12000, 'l2_workloads': 150, 'wall_budget_s': 1500}


def run_batch(seed, batch, tier, scratch):
  pl = plan(tier)
  S = core.Summary()
  log = core.EventLog()
  hashseed = core.hash_seed_for(seed, PROPERTY, batch)
  for i in range(pl['l1_workloads']):
    r = core.rng(seed, PROPERTY, 'L1', batch, i)
    cases, exhaustive = l1_cases(r, tier)
    if exhaustive:
      S.probes['L1_all_permutations_enumerated'] += 1
    results = []
    for case in cases:
      vs, probes = run_l1(case)
      S.runs += 1
      for k, n in probes.items():
        S.probes[k] += n
      S.counters['L1:' + '+'.join(sorted(g['agg'] for g in case['groups']))] += 1
      if len(case['groups']) > 1:
        S.probes['interleaved_groups'] += 1
      nrows = max(len(g['rows']) for g in case['groups'])
      d = core.digest64([case['groups'], case['orders'], case['interleave']])
      S.states.add(d)
      if nrows >= 3:
        S.nontrivial.add(d)
      results.append([v['class'] for v in vs])
      for v in vs:
        if len(S.violations) < 20:
          v = dict(v)
          v['case'] = dict(case, hashseed=hashseed)
          S.violations.append(v)
    log.add('L1', core.digest(cases[0]['groups'])[:16], len(cases), results)
    if len(S.samples) < 1 and cases and len(cases[0]['groups']) > 1:
      S.samples.append(cases[0])
  rw = core.rng(seed, PROPERTY, 'warm', batch)
  warm_engines = rw.choice([[], [], ['psql'], ['trino'], ['clickhouse', 'psql'], ['bigquery'], ['duckdb'], ['databricks'], ['presto', 'trino']])
  if warm_engines:
    S.probes['L2_process_compiled_for_other_engines_before'] += 1
  for i in range(pl['l2_workloads']):
    r = core.rng(seed, PROPERTY, 'L2', batch, i)
    for case in l2_cases(r, tier):
      if warm_engines:
        case['warm'] = warm_engines
      vs = run_l2(case, scratch)
      S.runs += 1
      S.counters['L2:mode:' + case['mode']] += 1
      if case.get('split') is not None:
        S.probes['L2_two_body_aggregation'] += 1
      for a in case['aggs']:
        S.counters['L2:agg:' + a] += 1
      for name, _, _ in case['scalars']:
        S.counters['L2:scalar:' + name] += 1
      if case.get('index') and case['mode'] == 'table':
        S.probes['L2_index_changes_scan_order'] += 1
      d = core.digest64(case)
      S.states.add(d)
      if len(case['rows']) >= 3:
        S.nontrivial.add(d)
      log.add('L2', core.digest(case)[:16], [v['class'] for v in vs])
      if len(S.samples) < 2 and case['scalars']:
        S.samples.append({'program': build_program(case, '<scratch>/agg.db')[0], 'rows_in_physical_order': case['rows'],
                          'index': case['index'], 'mode': case['mode']})
      for v in vs:
        if len(S.violations) < 20:
          v = dict(v)
          v['case'] = dict(case, hashseed=hashseed)
          S.violations.append(v)
  S.digests.append(log.hexdigest())
  return S


def evidence_meta(tier):
  return {
      'rule': ('L1: a workload is 1-3 groups of rows for ArgMin/ArgMax (with limit None, 1..n+5; values distinct - except that a quarter of the groups repeat some rows exactly - '
               'int/float/str), DistinctListAgg (Set) and ArrayConcatAgg (with nulls); it is fed to the real UDF '
               'objects in every permutation when one group has <=5 rows (<=6 thorough), else in 12 (40) seeded '
               'permutations, the steps of several groups interleaved and finalize() called in a seeded order. '
               'L2: a table of 1-10 rows (k, a, v, w) with distinct v (and, in a quarter of the tables, exact duplicate rows) in three physical orders (shuffled, ascending, '
               'descending by value) x optional index x table/fact-rule mode, 2-4 aggregating rules from '
               '{Sum, Min, Max, Avg, Count, List, Set, ArgMin, ArgMax, ArgMinK, ArgMaxK, Array, combine expressions, several aggregates in one head, literal-key rules over possibly empty selections} and 0-8 scalar cells '
               '(every scalar built-in of the property over small int/string/list domains incl. the empty list, zero, negative numbers, non-ASCII and backslash strings; random arithmetic expression trees; membership as a condition and as a value; compositions of built-ins), '
               'compiled and run on SQLite. A run is one (workload, arrival order) execution. Non-trivial = at least '
               '3 rows reach an aggregate; distinct = SHA-256 of (rows, order, interleaving).'),
      'states_measure': 'distinct (aggregate, row multiset, arrival order, interleaving) tuples (L1) and (table, physical order, index, program) tuples (L2)',
      'sim_time_unit': 'n/a (no clock in this engine)',
      'components': {
          'real': ['common/sqlite3_logica.py: ArgMin, ArgMax, DistinctListAgg, ArrayConcatAgg, SortList, InList, Join, Split UDFs',
                   'compiler (SqLiteDialect.BuiltInFunctions/InfixOperators, sqlite_library.py), parser, Concertina, SQLite (L2)'],
          'stub': ['L1: SQLite is replaced by the simulator as the caller of step()/finalize()',
                   'L2: sqlite3_logica.SqliteConnect -> observing proxy (no faults injected in this engine)'],
          'not_run': ['TakeFirst/ANY_VALUE (any value is correct)']},
      'expected_probes': ['heap_replace', 'limit_th_insertion', 'heap_full_arrival', 'interleaved_groups',
                          'L1_all_permutations_enumerated', 'L2_index_changes_scan_order', 'L2_two_body_aggregation'],
      'extra': {'excluded_cells': EXCLUDED_CELLS},
      'assumptions': [
          'defined values: sorted-prefix definition of ArgMin/ArgMax/ArgMinK/ArgMaxK/Array, set semantics for Set, multiset for List, arrival-order concatenation with nulls skipped for ArrayConcatAgg, Python semantics for the scalar cells listed in the rule; cells whose meaning the documentation does not fix for SQLite are excluded and listed',
          'only the aggregate half of C20 has a schedule; the scalar built-ins are pure functions checked as payload of the same runs',
      ],
  }
