"""Reference evaluator for the generated program fragment (bag semantics).

Written from docs/learn/logica.md ("Multiset Semantics", "Aggregation", "Recursion");
imports no Logica code and no SQL.  A program is the JSON-able AST of gen.py.

  conjunction multiplies multiplicities, rules of one predicate add up,
  `distinct` collapses to multiplicity one, aggregation groups by the head keys,
  a recursive component is evaluated by simultaneous (Jacobi) application of all its
  rules starting from empty relations: T^k(empty); lfp = iterate until stable.
"""
import collections

Counter = collections.Counter


def ev_term(t, env):
  if t[0] == 'c':
    return t[1]
  if t[0] == 'v':
    return env[t[1]]
  if t[0] == 'b':
    x, y = ev_term(t[1], env), ev_term(t[3], env)
    return x + y if t[2] == '+' else (x - y if t[2] == '-' else x * y)
  a = env[t[1]]
  if t[2] == '+':
    return a + t[3]
  if t[2] == '-':
    return a - t[3]
  return a * t[3]


CMP = {'<': lambda x, y: x < y, '<=': lambda x, y: x <= y, '==': lambda x, y: x == y,
       '!=': lambda x, y: x != y, '>': lambda x, y: x > y, '>=': lambda x, y: x >= y}


def eval_rule(rule, rel):
  """Yields (head_tuple, multiplicity) for one rule against relations `rel`."""
  envs = [({}, 1)]
  for q, args, valvar in rule['atoms']:
    new = []
    rows = rel.get(q)
    if not rows:
      return []
    for env, m in envs:
      for tup, m2 in rows.items():
        e = None
        ok = True
        for t, val in zip(args, tup):
          if t[0] == 'c':
            if t[1] != val:
              ok = False
              break
          elif t[0] == 'v':
            cur = env.get(t[1]) if e is None else e.get(t[1])
            if cur is None:
              if e is None:
                e = dict(env)
              e[t[1]] = val
            elif cur != val:
              ok = False
              break
          else:
            raise ValueError('expression in atom argument')
        if not ok:
          continue
        if e is None:
          e = dict(env)
        if valvar:
          if valvar in e:
            if e[valvar] != tup[-1]:
              continue
          else:
            e[valvar] = tup[-1]
        new.append((e, m * m2))
    envs = new
    if not envs:
      return []
  out = []
  for env, m in envs:
    ok = True
    for a, op, b in rule['cmps']:
      if not CMP[op](env[a], ev_term(b, env)):
        ok = False
        break
    # negated atoms ~Q(args), all variables bound by the positive part: no row of Q matches
    for q, args in rule.get('negs') or []:
      want = tuple(ev_term(t, env) for t in args)
      if any(tup[:len(want)] == want for tup in (rel.get(q) or ())):
        ok = False
        break
    if not ok:
      continue
    h = tuple(ev_term(t, env) for t in rule['head'])
    if rule.get('aggval') is not None:
      h = h + (ev_term(rule['aggval'], env),)
    out.append((h, m))
  return out


AGG = {'+=': sum, 'Min=': min, 'Max=': max}
ROW_CAP = 200000     # beyond this the engine side is a performance test, not a semantic one


def eval_pred(p, rel):
  rows = Counter()
  for r in p['rules']:
    for h, m in eval_rule(r, rel):
      rows[h] += m
  if p['kind'] == 'distinct':
    rows = Counter({k: 1 for k in rows})
  elif p['kind'] == 'agg':
    # multiplicities can be astronomically large (products along joins): never expand them
    groups = {}
    for k, m in rows.items():
      g, v = k[:-1], k[-1]
      if p['op'] == '+=':
        groups[g] = groups.get(g, 0) + v * m
      elif p['op'] == 'Min=':
        groups[g] = v if g not in groups else min(groups[g], v)
      else:
        groups[g] = v if g not in groups else max(groups[g], v)
    rows = Counter({k + (v,): 1 for k, v in groups.items()})
  if sum(rows.values()) > ROW_CAP:
    raise OverflowError('reference relation %s has more than %d rows' % (p['name'], ROW_CAP))
  if p.get('limit'):
    # @OrderBy over all columns + @Limit: the first n rows of the bag in that (total) order.
    # Ascending = numbers by value, strings by code point; descending = the reverse.
    flat = []
    for row, m in rows.items():
      flat.extend([row] * m)
    for c, desc in reversed(p['limit']['order']):
      flat.sort(key=lambda row: row[c], reverse=bool(desc))      # stable: last key first
    rows = Counter(flat[:p['limit']['n']])
  return rows


def deps(p):
  out = set()
  for r in p.get('rules', []):
    for q, _, _ in r['atoms']:
      out.add(q)
    for q, _ in r.get('negs') or []:
      out.add(q)
  return out


def nonmonotone(preds):
  """Names of predicates with a negated atom in some rule."""
  return {p['name'] for p in preds if any(r.get('negs') for r in p.get('rules', []))}


def sccs(preds):
  """Tarjan; returns components in dependency (topological) order."""
  by = {p['name']: p for p in preds}
  graph = {n: sorted(d for d in deps(p) if d in by) for n, p in by.items()}
  index = {}
  low = {}
  stack = []
  on = set()
  out = []
  counter = [0]

  def strong(v):
    index[v] = low[v] = counter[0]
    counter[0] += 1
    stack.append(v)
    on.add(v)
    for w in graph[v]:
      if w not in index:
        strong(w)
        low[v] = min(low[v], low[w])
      elif w in on:
        low[v] = min(low[v], index[w])
    if low[v] == index[v]:
      comp = []
      while True:
        w = stack.pop()
        on.discard(w)
        comp.append(w)
        if w == v:
          break
      out.append(sorted(comp))
  for p in preds:
    if p['name'] not in index:
      strong(p['name'])
  return out, graph


def expand_functors(program):
  """The meaning of `N := F(A: B)` as the documentation gives it: N is F with every predicate
  F depends on, and that depends on A, replaced by a copy reading B instead of A. Returns a
  program without functors whose copies are ordinary predicates (N itself, and `<member>__<N>`
  for the other copied predicates); `copy_of` maps each copy to its original."""
  import copy
  fs = program.get('functors') or []
  if not fs:
    return program
  p = copy.deepcopy(program)
  p['functors'] = []
  p['copy_of'] = dict(p.get('copy_of') or {})
  for f in fs:
    by = {q['name']: q for q in p['preds']}
    reach = {}
    for n in by:
      seen = set()
      stack = [n]
      while stack:
        x = stack.pop()
        if x in seen or x not in by:
          continue
        seen.add(x)
        stack.extend(deps(by[x]))
      reach[n] = seen
    args = set(f['args'])
    D = [q['name'] for q in p['preds']
         if q['name'] in reach[f['of']] and q['kind'] != 'edb' and (reach[q['name']] - {q['name']}) & args
         or q['name'] == f['of']]
    mapping = {m: (f['name'] if m == f['of'] else '%s__%s' % (m, f['name'])) for m in D}
    subst = dict(mapping)
    subst.update(f['args'])
    for m in D:
      q = copy.deepcopy(by[m])
      q['name'] = mapping[m]
      for ru in q['rules']:
        for a in ru['atoms']:
          a[0] = subst.get(a[0], a[0])
        for a in ru.get('negs') or []:
          a[0] = subst.get(a[0], a[0])
      p['preds'].append(q)
      p['copy_of'][mapping[m]] = m
      if m in p.get('recursive', {}):
        p['recursive'][mapping[m]] = copy.deepcopy(p['recursive'][m])
  return p


def depth_of(comp, recursive, default_depth=8):
  ann = sorted(n for n in comp if n in recursive)
  if ann:
    d = recursive[ann[0]]
    if isinstance(d, dict):
      d = d['depth']
    return d
  return default_depth


class Result(object):
  def __init__(self):
    self.rel = {}          # name -> Counter at T^(d+1) (exact semantics)
    self.fix = {}          # name -> Counter at the least fixpoint (None if not reached)
    self.info = {}         # component key -> dict(depth, steps_to_fix, differs)
    self.recursive = set()


def evaluate(program, max_fix_steps=120, row_cap=20000):
  """Returns Result with T^(d+1) relations (`rel`) and least-fixpoint relations (`fix`).

  For predicates downstream of a recursive component, `rel` is computed from the
  upstream `rel`, and `fix` from the upstream `fix` (None propagates)."""
  program = expand_functors(program)
  preds = program['preds']
  by = {p['name']: p for p in preds}
  recursive = program.get('recursive', {})
  res = Result()
  comps, graph = sccs(preds)
  for comp in comps:
    is_rec = len(comp) > 1 or comp[0] in graph[comp[0]]
    if not is_rec:
      p = by[comp[0]]
      if p['kind'] == 'edb':
        res.rel[p['name']] = Counter(tuple(r) for r in p['rows'])
        res.fix[p['name']] = res.rel[p['name']]
      else:
        res.rel[p['name']] = eval_pred(p, res.rel)
        if any(res.fix.get(q) is None for q in deps(p) if q in by):
          res.fix[p['name']] = None
        else:
          res.fix[p['name']] = eval_pred(p, res.fix)
      continue
    res.recursive |= set(comp)
    d = depth_of(comp, recursive)

    def step(cur, base):
      env = dict(base)
      env.update(cur)
      return {n: eval_pred(by[n], env) for n in comp}
    # exact: d+1 applications over upstream `rel`
    cur = {n: Counter() for n in comp}
    hist = []
    for _ in range(d + 1):
      cur = step(cur, res.rel)
      hist.append(cur)
      if sum(sum(c.values()) for c in cur.values()) > row_cap:
        raise OverflowError('reference relation too large')
    for n in comp:
      res.rel[n] = cur[n]
    # T^d, T^(d+2) for the off-by-one sensitivity measure
    prev = hist[-2] if len(hist) >= 2 else {n: Counter() for n in comp}
    nxt = step(cur, res.rel)
    differs = (prev != cur) and (nxt != cur)
    # least fixpoint over upstream `fix`
    fix = None
    steps = None
    if all(res.fix.get(q) is not None for n in comp for q in deps(by[n]) if q in by and q not in comp):
      c2 = {n: Counter() for n in comp}
      for i in range(max_fix_steps):
        n2 = step(c2, res.fix)
        if n2 == c2:
          fix = c2
          steps = i
          break
        c2 = n2
        if sum(sum(c.values()) for c in c2.values()) > row_cap:
          break
    for n in comp:
      res.fix[n] = fix[n] if fix is not None else None
    res.info[','.join(comp)] = {'depth': d, 'steps_to_fix': steps, 'off_by_one_visible': differs,
                                'members': list(comp)}
  return res


def header(p):
  """Documented column names of a predicate of the fragment (positional arguments)."""
  cols = list(p['cols']) if p.get('cols') else ['col%d' % i for i in range(p['arity'])]
  if p['kind'] == 'agg':
    cols.append('logica_value')
  return cols
