"""Drives the real Logica pipeline (parser, compiler, executor, SQLite) for the engines."""
import contextlib
import io
import os
import sys

from lsim import core
from lsim import sqlworld

_mods = None
_cache = {}


class Mods(object):
  pass


def mods():
  """Imports the repository under test once per process (its import-time prints muted)."""
  global _mods
  if _mods is None:
    core.import_repo()
    m = Mods()
    with contextlib.redirect_stdout(io.StringIO()):
      from common import concertina_lib, sqlite3_logica
      from tools import run_in_terminal
      from parser_py import parse
      from compiler import universe, functors, rule_translate
      from compiler.dialect_libraries import recursion_library
    m.concertina_lib = concertina_lib
    m.sqlite3_logica = sqlite3_logica
    m.run_in_terminal = run_in_terminal
    m.parse = parse
    m.universe = universe
    m.functors = functors
    m.rule_translate = rule_translate
    m.recursion_library = recursion_library
    _mods = m
  return _mods


def fresh_process():
  """The cheap model of a new process: every module of the repository under test is dropped
  and imported again (fresh module globals and class-level tables). Connections that only the old modules held
  close. The harness' own cache of compiled plans (plain data: statements, edges) is kept:
  compilation being a function of the text is C13's subject, not that of the engines using this."""
  global _mods
  import gc
  doomed = []
  for name, mod in list(sys.modules.items()):
    f = getattr(mod, '__file__', None)
    try:
      paths = [str(x) for x in (getattr(mod, '__path__', None) or [])]
    except Exception:
      paths = []
    if (f and f.startswith(core.REPO + os.sep)) or any(x.startswith(core.REPO) for x in paths):
      doomed.append(name)
  for name in doomed:
    del sys.modules[name]
  import importlib
  importlib.invalidate_caches()
  _mods = None
  if len(sqlworld.LIVE):
    gc.collect()     # connections that only the dropped modules (or dead frames) held close now
  return mods()


class Compiled(object):
  def __init__(self, text, preds):
    m = mods()
    self.text = text
    self.preds = list(preds)
    rules = m.parse.ParseFile(text)['rule']
    self.program = m.universe.LogicaProgram(rules)
    self.executions = []
    self.sql = {}
    for p in preds:
      self.sql[p] = self.program.FormattedPredicateSql(p)
      self.executions.append(self.program.execution)
    self.rule_names = sorted({r['head']['predicate_name'] for _, r in self.program.rules})

  def unfolding_style(self, member):
    """Which unfolding the compiler chose, read off the generated predicate names."""
    names = set(self.rule_names)
    for suffix, style in (('_ifr0', 'iterative'), ('_fr0', 'flat'), ('_r0', 'vertical')):
      if member + suffix in names:
        return style
    return None


def compiled(text, preds, use_cache=True):
  key = (text, tuple(preds))
  if use_cache and key in _cache:
    return _cache[key]
  c = Compiled(text, preds)
  if use_cache:
    if len(_cache) > 400:
      _cache.clear()
    _cache[key] = c
  return c


@contextlib.contextmanager
def muted():
  old = sys.stdout
  sys.stdout = io.StringIO()
  try:
    yield sys.stdout
  finally:
    sys.stdout = old


def run_script(world, comp, pred):
  """The `logica.py <file> run <pred>` path on SQLite, call for call."""
  m = mods()
  e = comp.executions[comp.preds.index(pred)]
  statements = [e.preamble] + e.defines_and_exports + [e.main_predicate_sql]
  with sqlworld.Installed(m.sqlite3_logica, world):
    with muted():
      out = m.sqlite3_logica.RunSqlScript(statements, 'csv')
  last = [s for s in world.statements if s.final][-1]
  return out, last


def run_concertina(world, comp, preds=None, display_mode='silent', keep=None):
  """The tools/run_in_terminal.RunMany path: SqlRunner + ExecuteLogicaProgram.

  Returns {pred: (header, rows)}.  `keep`, if a list, receives the proxies so the
  caller can keep using the connection (same-connection re-runs)."""
  m = mods()
  preds = preds or comp.preds
  execs = [comp.executions[comp.preds.index(p)] for p in preds]
  with sqlworld.Installed(m.sqlite3_logica, world) as inst:
    with muted():
      runner = m.run_in_terminal.SqlRunner('sqlite')
      res = m.concertina_lib.ExecuteLogicaProgram(
          execs, runner, 'sqlite', display_mode=display_mode)
    if keep is not None:
      keep.extend(inst.proxies)
      inst.proxies = []
  return {k: (list(v[0]), [list(r) for r in v[1]]) for k, v in res.items()}


def run_many_entry(world, path, preds):
  """The real entry point tools/run_in_terminal.RunMany on a program file."""
  m = mods()
  with sqlworld.Installed(m.sqlite3_logica, world):
    with muted():
      res = m.run_in_terminal.RunMany(path, preds, output_format='header_rows',
                                      display_mode='silent')
  return {k: (list(v[0]), [list(r) for r in v[1]]) for k, v in res.items()}
