"""C17 - grounded predicates are materialised faithfully; re-running is idempotent.

Workload = a HISTORY of operations against one persistent SQLite file: runs of
predicates of a generated program with grounded intermediates through the three real
entry paths (logica.py script path, run_in_terminal.Run, RunMany), switches between
versions of the extensional facts (so a stale table is distinguishable from a fresh
one), tampering by "another client", and runs that die / are interrupted / hit a full
disk / a locked database at a seeded statement.  After every completed run the file
is compared with the reference evaluator and the recorded statement trace.
"""
import collections
import copy
import io
import os
import sys

from lsim import core
from lsim import gen
from lsim import ref
from lsim import lrun
from lsim import sqlworld
from lsim import minimise

PROPERTY = 'C17'
Counter = collections.Counter
HOME = 'logica_home'


# ------------------------------------------------------------------ workload

def gen_case(r, hashseed, tier):
  preset = None
  if r.random() < 0.12:
    program = gen.gen_withchain(r)       # nested WITH helpers between grounded tables
    preset = program['ground']
  else:
    program = gen.gen_nonrecursive(r, n_idb=r.randint(3, 6))
  idb = gen.idb_names(program)
  dep = gen.dependants(program)
  has_dependants = [n for n in idb if any(n in dep[m] for m in idb)]
  pool = has_dependants or idb
  ground = sorted(set(r.sample(pool, min(len(pool), r.choice([1, 1, 2, 3])))))
  if r.random() < 0.3:
    ground = sorted(set(ground) | {r.choice(idb)})
  if preset is not None:
    ground = list(preset)
  ground_table = {}
  for g in ground:
    if r.random() < 0.3:
      # a table the program points to by name (still in the attached database)
      ground_table[g] = '%s.%s' % (HOME, r.choice(['t_%s', 'out_%s', '%s_tbl', 'X%s']) % g.lower())
  if preset is None and not ground_table and r.random() < 0.15:
    add_grounded_functor(r, program, ground, dep)
    idb = gen.idb_names(program)       # the copy and its reader can be asked for
  versions = [{p['name']: p['rows'] for p in program['preds'] if p['kind'] == 'edb'}]
  for _ in range(r.choice([0, 1, 2])):
    v = {}
    for p in program['preds']:
      if p['kind'] == 'edb':
        v[p['name']] = gen.gen_edb(r, p['name'], arity=p['arity'], types=p.get('types'))['rows']
    versions.append(v)
  ops = []
  n_ops = r.randint(2, 10 if tier == 'thorough' else 8)
  for _ in range(n_ops):
    k = r.choice(['run', 'run', 'run', 'run', 'many', 'switch', 'tamper', 'rerun', 'faulted'])
    if k == 'switch' and len(versions) > 1:
      ops.append(['switch', r.randrange(len(versions))])
    elif k == 'tamper':
      ops.append(['tamper', r.choice(ground), r.choice(['garbage', 'drop', 'garbage'])])
    elif k == 'many':
      if r.random() < 0.3:
        # logica.py <file> run_to_csv P,Q : one fresh program and one script per predicate
        ops.append(['climany', r.sample(idb, min(len(idb), r.choice([2, 2, 3]))), []])
      else:
        ops.append(['many', r.sample(idb, min(len(idb), r.choice([2, 2, 3]))), []])
    elif k == 'rerun':
      ops.append(['rerun'])
    elif k == 'faulted':
      f = gen_fault(r)
      if r.random() < 0.3:
        ops.append(['many', r.sample(idb, min(len(idb), 2)), [f]])
      else:
        ops.append(['run', r.choice(idb), r.choice(['script', 'concertina']), [f]])
    else:
      ops.append(['run', r.choice(idb), r.choice(['script', 'concertina', 'concertina', 'cli', 'cli_terminal']), []])
  aux_db = None
  if r.random() < 0.25:
    aux_db = [r.choice(['before', 'after']), r.choice(['aux', 'a_db', 'zz_other'])]
  return {'hashseed': hashseed, 'program': program, 'ground': ground, 'ground_table': ground_table,
          'versions': versions, 'ops': ops, 'aux_db': aux_db, 'attach_via_flag': r.random() < 0.25,
          # @Dataset("logica_test"): grounded tables are asked to live in the in-memory database although a file is attached
          'dataset_memory': (not ground_table) and r.random() < 0.12,
          'with_too': [g for g in ground if r.random() < 0.12]}


def add_grounded_functor(r, program, ground, dep):
  """`GFc := G(E: ETwo)` for a grounded G with no other grounded predicate between it and E
  (the compiler's names for copies of intermediates are its own), plus a reader of the copy."""
  by = {p['name']: p for p in program['preds']}
  cands = []
  for g in ground:
    if by[g].get('limit') or by[g].get('cols'):
      continue
    for e in sorted(dep[g]):
      if e in by and by[e]['kind'] == 'edb' and not any(
          h != g and h in dep[g] and e in dep[h] for h in ground):
        cands.append((g, e))
  if not cands:
    return
  g, e = r.choice(cands)
  src = by[e]
  name2 = e + 'Two'
  rows = [list(x) for x in src['rows']][:max(1, len(src['rows']) - 1)] + [list(src['rows'][0])]
  program['preds'].append(dict(gen.copy_pred(src), name=name2, rows=rows))
  program['functors'] = [{'name': g + 'Fc', 'of': g, 'args': {e: name2}}]
  ar = by[g]['arity']
  hv = [gen.V(gen.VARS[i]) for i in range(ar)]
  val = 'a8' if by[g]['kind'] == 'agg' else None
  program['preds'].append({'name': 'RdFc', 'arity': ar, 'kind': 'bag', 'rules': [
      gen.rule(hv, [[g + 'Fc', hv, val]])]})


def gen_fault(r):
  kind = r.choice(['abort', 'abort', 'interrupt', 'interrupt', 'full', 'full', 'full', 'busy'])
  f = {'kind': kind, 'at': r.choice([2, 3, 4, 4, 4, 5, 6, 6, 7, 8, 10])}
  if kind == 'interrupt':
    f['steps'] = r.choice([1, 1, 3, 10, 50])
  if kind == 'full':
    f = {'kind': 'full', 'db': HOME, 'pages': r.choice([0, 0, 0, 1])}
  if kind != 'abort' and r.random() < 0.6:
    # the process survives an engine error; whoever caught the exception may keep it (a notebook's
    # sys.last_value, a test harness), and with it the failed run's connection
    f['retain'] = True
  if kind == 'busy':
    # how many statements of the run the other client's transaction stays open
    f['hold'] = r.choice([1, 1, 2, 3, 4, 6, 100])
  return f


def program_at(case, version, dbpath):
  p = copy.deepcopy(case['program'])
  for q in p['preds']:
    if q['kind'] == 'edb':
      q['rows'] = case['versions'][version][q['name']]
  p['ground'] = list(case['ground'])
  p['ground_table'] = dict(case.get('ground_table') or {})
  p['attach'] = dbpath
  p['attach_via_flag'] = bool(case.get('attach_via_flag'))
  if case.get('dataset_memory'):
    p['noise'] = list(p.get('noise') or []) + ['@Dataset("logica_test");']
  for g in case.get('with_too') or []:
    # a grounded predicate that ALSO carries an explicit @With: @Ground decides
    p['noise'] = list(p.get('noise') or []) + ['@With(%s);' % g]
  if case.get('aux_db'):
    # a second attached database that nothing uses: the grounded tables must still land in logica_home
    where = case['aux_db']
    aux = '@AttachDatabase("%s", "%s");' % (where[1], dbpath[:-3] + '-aux.db')
    p['noise'] = list(p.get('noise') or []) + [aux]
    p['attach_after_noise'] = where[0] == 'before'
  return p


# ------------------------------------------------------------------ execution of one op

class CliExit(Exception):
  pass


TAINTED = [False]     # the modules in sys.modules are those of a finished CLI process


def own_process():
  """Back in the long-lived process of the history after a CLI invocation."""
  if TAINTED[0]:
    TAINTED[0] = False
    lrun.fresh_process()


def run_cli(world, path, pred, command='run_to_csv'):
  """The real entry point: `logica.py <file> run_to_csv|run_in_terminal <pred>` run as __main__.
  Every invocation is a process of its own: fresh modules before, and again after it so that
  nothing of it leaks into the long-lived process of the history."""
  try:
    return _run_cli(world, path, pred, command, lrun.fresh_process())
  finally:
    TAINTED[0] = True


def _run_cli(world, path, pred, command, m):
  import runpy
  old_out, old_argv = sys.stdout, sys.argv
  sys.stdout = io.StringIO()
  sys.argv = ['logica.py', path, command, pred]
  try:
    with sqlworld.Installed(m.sqlite3_logica, world):
      try:
        runpy.run_path(os.path.join(core.REPO, 'logica.py'), run_name='__main__')
      except SystemExit as e:
        if e.code not in (None, 0):
          raise CliExit('logica.py exited with %s: %s' % (e.code, sys.stdout.getvalue()[-300:]))
    out = sys.stdout.getvalue()
  finally:
    sys.stdout, sys.argv = old_out, old_argv
  return out


def table_key(t):
  if t is None:
    return None
  return (tuple(t['cols']), tuple(map(tuple, t['rows'])))


def expect_table(p, R):
  rows = []
  for tup, m in R.rel[p['name']].items():
    rows.extend([list(tup)] * m)
  return {'cols': ref.header(p), 'rows': sqlworld.rows_key(rows)}


def fails_without_grounding(prog, preds, exc):
  """Does the same request fail in the same way with no @Ground, no attached file, no history?"""
  plain = dict(prog, ground=[], ground_table={}, attach=None, noise=[])
  try:
    lrun.fresh_process()
    comp = lrun.compiled(gen.render(plain), preds, use_cache=False)
    lrun.run_concertina(sqlworld.World(), comp, preds)
  except Exception as e2:
    return type(e2).__name__ == type(exc).__name__ or type(exc).__name__ == 'CliExit'
  finally:
    lrun.fresh_process()
  return False


def run_history(case, scratch):
  """Executes the history; returns (violations, info)."""
  lrun.fresh_process()      # one case = the life of one (simulated) process
  TAINTED[0] = False
  info = {'fired': Counter(), 'configured': Counter(), 'probes': Counter(), 'statements': 0,
          'states': set(), 'transitions': set(), 'completed_runs': 0, 'nontrivial': False,
          'discard': None}
  vs = []

  def V(klass, key, msg, i):
    vs.append({'class': klass, 'key': key, 'message': 'op %d %s: %s' % (i, case['ops'][i], msg)})

  dbpath = os.path.join(scratch, 'ground-%s.db' % core.digest(case)[:12])
  srcpath = dbpath[:-3] + '.l'
  for f in (dbpath, dbpath + '-journal'):
    if os.path.exists(f):
      os.remove(f)
  # functor copies are ordinary predicates to the oracle (explicit copies, ref.expand_functors); a copy
  # of a grounded predicate inherits @Ground, its table carries the copy's own name
  xprog = ref.expand_functors(case['program'])
  by = {p['name']: p for p in xprog['preds']}
  dep = gen.dependants(xprog)
  ground = list(case['ground']) + [f['name'] for f in case['program'].get('functors') or [] if f['of'] in case['ground']]
  gt = case.get('ground_table') or {}

  def tab(g):
    """Name of the table of grounded predicate g inside the attached file."""
    return gt[g].split('.', 1)[1] if g in gt else g
  pred_of_table = {tab(g): g for g in ground}
  in_memory = bool(case.get('dataset_memory'))      # grounded tables live in logica_test, not in the file
  home_db = 'logica_test' if in_memory else HOME
  version = 0
  refs = {}

  def R_of(v):
    if v not in refs:
      refs[v] = ref.evaluate(program_at(case, v, dbpath))
    return refs[v]
  last_run = None
  last_result = None
  worlds = []
  prev_kind = 'start'
  dirty = False       # a stale / tampered / partially written state precedes the next run
  try:
    for i, op in enumerate(case['ops']):
      kind = op[0]
      if kind == 'switch':
        if op[1] != version:
          dirty = True
        version = op[1] % len(case['versions'])
        info['transitions'].add((prev_kind, 'switch'))
        prev_kind = 'switch'
        last_result = None
        continue
      if kind == 'tamper':
        import sqlite3
        c = sqlite3.connect(dbpath)
        try:
          c.execute('PRAGMA busy_timeout=0')
          c.execute('DROP TABLE IF EXISTS "%s"' % tab(op[1]))
          if op[2] == 'garbage':
            c.execute('CREATE TABLE "%s" (col0 INTEGER, junk TEXT)' % tab(op[1]))
            c.execute('INSERT INTO "%s" VALUES (424242, \'stale\')' % tab(op[1]))
          c.commit()
        except sqlite3.OperationalError as e:
          # the other client cannot write either while somebody holds the lock
          info['probes']['tamper_blocked_by_a_held_lock'] += 1
          c.close()
          continue
        finally:
          c.close()
        dirty = True
        info['configured']['tamper_' + op[2]] += 1
        info['fired']['tamper_' + op[2]] += 1
        info['transitions'].add((prev_kind, 'tamper'))
        prev_kind = 'tamper'
        last_result = None
        continue
      if kind == 'rerun':
        if last_run is None:
          continue
        op2 = last_run
      else:
        op2 = op
      if op2[0] == 'run':
        preds, path, faults = [op2[1]], op2[2], op2[3]
      elif op2[0] == 'climany':
        preds, path, faults = list(op2[1]), 'climany', op2[2]
      else:
        preds, path, faults = list(op2[1]), 'many', op2[2]
      if kind == 'rerun':
        faults = []
      prog = program_at(case, version, dbpath)
      try:
        R = R_of(version)
      except OverflowError:
        info['discard'] = 'reference relation too large'
        return [], info
      text = gen.render(prog)
      before = sqlworld.snapshot_file(dbpath)
      if before is None:
        info['probes']['file_locked_before_a_run'] += 1
        before = {}
      info['states'].add(core.digest64(sorted((k, core.digest(v)[:12]) for k, v in before.items())))
      stale_before = {g for g in ground if tab(g) in before and table_key(before[tab(g)]) != table_key(expect_table(by[g], R))}
      faults_ = [dict(f, file=dbpath) if f['kind'] == 'busy' else f for f in faults]
      for f in faults_:
        info['configured'][f['kind']] += 1
      world = sqlworld.World(faults_)
      world.retain_connections = any(f.get('retain') for f in faults_)
      worlds.append(world)
      exc = None
      res = None
      try:
        if path == 'climany':
          with open(srcpath, 'w') as fh:
            fh.write(text)
          run_cli(world, srcpath, ','.join(preds))
          finals = [s for s in world.statements if s.final]
          if len(finals) != len(preds):
            V('cli-output', 'finals', '%d final statements for %d predicates' % (len(finals), len(preds)), i)
          res = {p_: f_.result for p_, f_ in zip(preds, finals)}
        elif path == 'cli_terminal':
          with open(srcpath, 'w') as fh:
            fh.write(text)
          run_cli(world, srcpath, preds[0], 'run_in_terminal')
          last = [s for s in world.statements if s.final][-1]
          res = {preds[0]: last.result}
        elif path == 'cli':
          with open(srcpath, 'w') as fh:
            fh.write(text)
          out = run_cli(world, srcpath, preds[0])
          last = [s for s in world.statements if s.final][-1]
          res = {preds[0]: last.result}
          import csv
          parsed = [row for row in csv.reader(io.StringIO(out)) if row]   # print() adds a blank line
          want_csv = [list(map(str, last.result[0]))] + [[str(x) for x in row] for row in last.result[1]]
          if parsed != want_csv:
            V('cli-output', 'csv', 'printed CSV %s differs from the rows of the final statement %s' % (parsed[:5], want_csv[:5]), i)
        elif path == 'script':
          own_process()
          comp = lrun.compiled(text, preds)
          _, last = lrun.run_script(world, comp, preds[0])
          res = {preds[0]: last.result}
        else:
          own_process()
          comp = lrun.compiled(text, preds)
          res = lrun.run_concertina(world, comp, preds)
      except sqlworld.TooExpensive:
        info['discard'] = 'statement exceeded VM step budget'
        return [], info
      except (Exception, CliExit) as e:
        exc = e
      info['statements'] += len(world.statements)
      for k, _ in world.fired:
        info['fired'][k] += 1
      after = sqlworld.snapshot_file(dbpath)
      after_unobservable = after is None
      if after is None:
        after = dict(before)
      info['transitions'].add((prev_kind, 'faulted-run' if exc is not None else path))
      if path == 'climany' and exc is None:
        info['probes']['cli_with_several_predicates'] += 1
      prev_kind = 'faulted-run' if exc is not None else 'run'
      if exc is not None:
        if not world.fired:
          # C17 speaks of grounded tables and of repeated runs: a program that cannot be run even
          # with nothing grounded, on an empty in-memory database, fails for reasons of its own
          # (seed sweep 51: a predicate name of 100+ characters read through two WITH tables gives
          # "duplicate WITH table name"). Such a case is discarded and counted, not reported.
          if fails_without_grounding(prog, preds, exc):
            info['discard'] = 'program fails without grounding too: %s' % type(exc).__name__
            return [], info
          V('engine-error', type(exc).__name__, 'run failed without an injected fault: %s: %s' % (type(exc).__name__, str(exc)[:300]), i)
          continue
        # narrow relaxation: only atomicity is demanded of an aborted run
        for g in ([] if after_unobservable else ground):
          cands = [table_key(before.get(tab(g))), None, table_key(expect_table(by[g], R))]
          if table_key(after.get(tab(g))) not in cands:
            V('garbage-after-abort', 'table', 'table %s is neither old, new nor absent after the aborted run: %s' % (tab(g), after.get(tab(g))), i)
          if table_key(after.get(tab(g))) != table_key(before.get(tab(g))):
            dirty = True
            if tab(g) not in after:
              info['probes']['abort_between_drop_and_create'] += 1
        last_run = op2
        last_result = None
        continue
      # ---------------- completed run
      if after_unobservable:
        V('engine-error', 'locked-after-run', 'the database file cannot be read after a completed run: it is still locked', i)
        continue
      info['completed_runs'] += 1
      if dirty or stale_before:
        info['nontrivial'] = True
      written = set()
      created_at = {}
      for s in world.statements:
        for t in s.creates:
          if t.startswith(home_db + '.'):
            g_ = pred_of_table.get(t.split('.', 1)[1], t.split('.', 1)[1])
            written.add(g_)
            created_at[g_] = s.index
      requested = set(preds)
      for p in preds:
        # (a) rows returned
        hdr, rows = res[p]
        got = Counter(tuple(x) for x in rows)
        if got != R.rel[p]:
          key = 'stale-read' if stale_before & dep[p] else 'rows'
          V('wrong-rows', key, '%s returned %s, defined %s (version %d)' % (
              p, sorted(got.items())[:6], sorted(R.rel[p].items())[:6], version), i)
        if list(hdr) != ref.header(by[p]):
          V('wrong-rows', 'header', '%s columns %s, documented %s' % (p, hdr, ref.header(by[p])), i)
      # (b) grounded intermediates hold exactly what they evaluate to, and were read after rewriting
      needed = set()
      for p in preds:
        needed |= {g for g in ground if g in dep[p] and g != p}
      for g in sorted(needed):
        want = expect_table(by[g], R)
        if not in_memory and table_key(after.get(tab(g))) != table_key(want):
          V('table-contents', 'intermediate', 'table %s holds %s, %s evaluates to %s' % (
              tab(g), after.get(tab(g)), g, want), i)
        name = '%s.%s' % (home_db, tab(g))
        # every connection of the run is a script of its own (logica.py P,Q runs one per predicate)
        any_read = False
        for conn in sorted({s.conn for s in world.statements}):
          seg = [s for s in world.statements if s.conn == conn]
          reads = [s.index for s in seg if name in s.reads]
          creates = [s.index for s in seg if name in s.creates]
          if not reads:
            continue
          any_read = True
          if not creates:
            V('not-rewritten', 'stale-read', '%s was read but not rewritten by the script that read it' % name, i)
          elif min(reads) < min(creates):
            V('read-before-write', 'stale-read', '%s was read (statement %d) before it was rewritten (statement %d)' % (
                name, min(reads), min(creates)), i)
        if not any_read:
          V('not-read', 'recomputed', 'no statement of the run read %s: dependants did not use the table' % name, i)
        if g in stale_before:
          info['probes']['reader_ran_while_stale_copy_of_input_existed'] += 1
      # (c') whatever grounded table this run wrote holds what the predicate evaluates to
      if in_memory and core.canon(after) != core.canon(before):
        V('wrong-database', 'file-changed', 'the program keeps its grounded tables in the in-memory dataset, yet the attached file changed: before %s, after %s' % (sorted(before), sorted(after)), i)
      for g in sorted(written if not in_memory else ()):
        if g in by and g in ground and table_key(after.get(tab(g))) != table_key(expect_table(by[g], R)):
          if g not in needed:
            V('table-contents', 'written', 'table %s written by this run holds %s, %s evaluates to %s' % (
                tab(g), after.get(tab(g)), g, expect_table(by[g], R)), i)
      for g in ground:
        if g not in written and table_key(after.get(tab(g))) != table_key(before.get(tab(g))):
          V('table-contents', 'changed-without-create', 'table %s changed although no CREATE for it ran' % tab(g), i)
        if g not in needed and g not in requested and g in written:
          info['probes']['unneeded_grounded_table_written'] += 1
      # (d) asking for P itself prints it without writing it
      for p in preds:
        if p in ground and p not in needed:
          info['probes']['requested_predicate_is_itself_grounded'] += 1
          if p in written or table_key(after.get(tab(p))) != table_key(before.get(tab(p))):
            V('requested-written', 'self', 'asking for grounded %s itself wrote its table (before %s, after %s)' % (
                p, before.get(tab(p)), after.get(tab(p))), i)
      # (e) idempotence: an immediate second identical run = same rows, same file
      this = core.canon([preds, version])
      if kind == 'rerun' and last_result is not None and last_result[0] == this:
        info['probes']['immediate_rerun_compared'] += 1
        if core.canon(sorted_res(res)) != last_result[1]:
          V('not-idempotent', 'rows', 'second run returned different rows', i)
        if core.canon(after) != last_result[2]:
          V('not-idempotent', 'file', 'second run left different table contents', i)
      last_run = op2
      last_result = (this, core.canon(sorted_res(res)), core.canon(after))
      dirty = False
  finally:
    for w_ in worlds:
      if w_.retained:
        info['probes']['failed_connection_kept_alive_across_later_runs'] += 1
      w_.release()
    for f in (dbpath, dbpath + '-journal', srcpath, dbpath[:-3] + '-aux.db', dbpath[:-3] + '-aux.db-journal'):
      if os.path.exists(f):
        os.remove(f)
  return vs, info


def sorted_res(res):
  return {k: [list(v[0]), sqlworld.rows_key(v[1])] for k, v in res.items()}


def run_case(case, scratch):
  if case.get('curated'):
    v = curated_one(case['curated'], scratch)
    return [{k: v[k] for k in ('class', 'key', 'message')}] if v else []
  return run_history(case, scratch)[0]


# ------------------------------------------------------------------ shrinking

def shrink(case):
  if case.get('curated'):
    return
  ops = case['ops']
  for o in minimise.drop_chunks(ops, 1):
    yield dict(case, ops=o)
  for i, op in enumerate(ops):
    if op[0] in ('run', 'many', 'climany') and op[-1]:
      op2 = list(op)
      op2[-1] = []
      yield dict(case, ops=[op2 if j == i else x for j, x in enumerate(ops)])
    if op[0] == 'many' and len(op[1]) > 1:
      for p in op[1]:
        yield dict(case, ops=[(['run', p, 'concertina', op[2]] if j == i else x) for j, x in enumerate(ops)])
    if op[0] == 'climany':
      for p in op[1]:
        yield dict(case, ops=[(['run', p, 'cli', op[2]] if j == i else x) for j, x in enumerate(ops)])
    if op[0] == 'run' and op[2] != 'concertina':
      yield dict(case, ops=[(['run', op[1], 'concertina', op[3]] if j == i else x) for j, x in enumerate(ops)])
  if case.get('ground_table'):
    yield dict(case, ground_table={})
  if case.get('aux_db'):
    yield dict(case, aux_db=None)
  if len(case['ground']) > 1:
    for g in case['ground']:
      ops2 = [o for o in ops if not (o[0] == 'tamper' and o[1] == g)]
      yield dict(case, ground=[x for x in case['ground'] if x != g], ops=ops2)
  prog = case['program']
  used = set(case['ground'])
  for o in ops:
    if o[0] == 'run':
      used.add(o[1])
    elif o[0] in ('many', 'climany'):
      used |= set(o[1])
  dep = gen.dependants(prog)
  idb = gen.idb_names(prog)
  for n in idb:
    if n not in used and not any(n in dep[m] for m in idb if m != n):
      yield dict(case, program=dict(prog, preds=[p for p in prog['preds'] if p['name'] != n]))
  for pi, p in enumerate(prog['preds']):
    if p['kind'] != 'edb' and len(p['rules']) > 1:
      for ri in range(len(p['rules'])):
        p2 = dict(p, rules=[x for j, x in enumerate(p['rules']) if j != ri])
        yield dict(case, program=dict(prog, preds=[p2 if j == pi else q for j, q in enumerate(prog['preds'])]))
  for vi, v in enumerate(case['versions']):
    for name, rows in sorted(v.items()):
      if len(rows) > 1:
        for rows2 in minimise.drop_chunks(rows, 1):
          v2 = dict(v)
          v2[name] = rows2
          yield dict(case, versions=[v2 if j == vi else x for j, x in enumerate(case['versions'])])


# ------------------------------------------------------------------ batches

def plan(tier):
  if tier == 'quick':
    return {'batches': 48, 'timeout': 1500, 'histories': 10, 'enumerate_aborts': 1, 'abort_positions': 8, 'wall_budget_s': 420}
  # a batch must stay well inside its timeout even when the machine is shared (a timeout is a
  # harness error, never a pass): about 300 histories per batch
  return {'batches': 640, 'timeout': 3000, 'histories': 24, 'enumerate_aborts': 3, 'abort_positions': 14, 'wall_budget_s': 1500}


def abort_enumeration(case, scratch, positions):
  """For every run of the history, every statement position as an abort point."""
  out = []
  for i, op in enumerate(case['ops']):
    if op[0] not in ('run', 'many') or op[-1]:
      continue
    for k in range(1, positions + 1):
      op2 = list(op)
      op2[-1] = [{'kind': 'abort', 'at': k}]
      ops = list(case['ops'])
      # the aborted run, then the same run clean, then the rest
      ops[i:i + 1] = [op2, op]
      out.append(dict(case, ops=ops))
  return out


def account(S, case, vs, info, log):
  S.runs += 1
  if info['discard']:
    S.counters['discarded:' + info['discard']] += 1
    return
  S.faults_configured.update(info['configured'])
  S.faults_fired.update(info['fired'])
  S.probes.update(info['probes'])
  S.sim_time += info['statements']
  S.states |= info['states']
  S.counters['completed_runs'] += info['completed_runs']
  S.counters['ops'] += len(case['ops'])
  for t in info['transitions']:
    S.counters['transition:%s->%s' % t] += 1
  if info['nontrivial']:
    S.nontrivial.add(core.digest64(case))
  log.add('history', core.digest(case)[:16], [v['class'] for v in vs], sorted(info['fired'].items()))
  for v in vs:
    if len(S.violations) < 20:
      v = dict(v)
      v['case'] = case
      S.violations.append(v)


def run_batch(seed, batch, tier, scratch):
  pl = plan(tier)
  S = core.Summary()
  log = core.EventLog()
  hashseed = core.hash_seed_for(seed, PROPERTY, batch)
  for i in range(pl['histories']):
    r = core.rng(seed, PROPERTY, batch, i)
    case = gen_case(r, hashseed, tier)
    # fault-free twin first: no relaxation can hide an ordinary bug
    clean = dict(case, ops=[(o[:-1] + [[]] if o[0] in ('run', 'many', 'climany') else o) for o in case['ops']])
    if clean != case:
      vs, info = run_history(clean, scratch)
      S.counters['fault_free_twins'] += 1
      account(S, clean, vs, info, log)
    vs, info = run_history(case, scratch)
    account(S, case, vs, info, log)
    if len(S.samples) < 1 and info['fired'] and info['completed_runs']:
      S.samples.append({'program': gen.render(program_at(case, 0, '<scratch>/ground.db')),
                        'versions': case['versions'], 'ops': case['ops'],
                        'faults_fired': dict(info['fired'])})
    if i < pl['enumerate_aborts']:
      for c2 in abort_enumeration(clean, scratch, pl['abort_positions']):
        vs, info = run_history(c2, scratch)
        S.counters['abort_enumeration_histories'] += 1
        account(S, c2, vs, info, log)
  if batch == 0:
    curated(S, log, scratch)
  S.digests.append(log.hexdigest())
  return S


CURATED = [
    # (key, program text with %(db)s, predicate, rows the documentation defines)
    ('curated:case-insensitive-table-names',
     '@Engine("sqlite");\n@AttachDatabase("logica_home", "%(db)s");\n'
     '@Ground(Ab);\nAb(1); Ab(2);\n@Ground(AB);\nAB(10); AB(20);\n'
     'R("Ab", x) :- Ab(x);\nR("AB", x) :- AB(x);\n',
     'R', [['AB', 10], ['AB', 20], ['Ab', 1], ['Ab', 2]]),
    ('curated:column-affinity-of-grounded-table',
     '@Engine("sqlite");\n@AttachDatabase("logica_home", "%(db)s");\n'
     '@Ground(P);\nP(ToInt64(x)) :- x in [4];\nP(y) :- y in [3.0, 5.0];\nHalf(x / 2) :- P(x);\n',
     'Half', [[1.5], [2], [2.5]]),
]


def curated(S, log, scratch):
  """Fixed inputs found by reading and by sub-agents' exploration rather than by the generator:
  run on every check so that a genuine, unrepaired defect is reported as what it is (a known
  finding, listed in known_findings.json) and is noticed when it goes away or changes."""
  for key, text, pred, want in CURATED:
    v = curated_one(key, scratch)
    S.counters['curated_cases'] += 1
    log.add('curated', key, v is None)
    if v is not None:
      S.violations.append(v)


def curated_one(wanted_key, scratch):
  for key, text, pred, want in CURATED:
    if key != wanted_key:
      continue
    lrun.fresh_process()
    dbpath = os.path.join(scratch, 'curated.db')
    for f in (dbpath, dbpath + '-journal'):
      if os.path.exists(f):
        os.remove(f)
    got = None
    try:
      comp = lrun.compiled(text % {'db': dbpath}, [pred], use_cache=False)
      _, last = lrun.run_script(sqlworld.World(), comp, pred)
      got = sqlworld.rows_key(last.result[1])
    except Exception as e:
      got = '%s: %s' % (type(e).__name__, str(e)[:200])
    finally:
      for f in (dbpath, dbpath + '-journal'):
        if os.path.exists(f):
          os.remove(f)
    if got != sqlworld.rows_key(want):
      return {'class': 'curated', 'key': key,
              'message': '%s of the fixed program %s returned %s, defined %s' % (pred, key, got, want),
              'case': {'curated': key, 'hashseed': 0}}
  return None


def evidence_meta(tier):
  return {
      'rule': ('A history is 2-8 (thorough: 2-10) operations against one SQLite file: run(pred) through the '
               'logica.py script path / logica.py main() / run_in_terminal path, RunMany(preds), switch to another '
               'of 1-3 versions of the extensional facts, tamper (another client drops a grounded table or replaces '
               'it by garbage), immediate re-run, and runs with an injected fault (abort before statement k, '
               'interrupt of statement k after n VM steps, disk full, database locked by another connection; after such an engine error the failed run\'s connection may stay referenced for the rest of the history, as an exception kept by a notebook would do). '
               'Programs: 3-6 generated predicates (bag, distinct, aggregating; some top-N through @OrderBy over all columns + @Limit; explicit table names; a second attached database), 1-4 of them grounded. A lock fault is another client whose write transaction stays open for a drawn number of statements of the run; a pause the system takes only advances the simulated clock. Every case starts in a simulated process of its own and every logica.py invocation runs in another. Two fixed inputs (known findings) run in batch 0. Every history with faults also runs as '
               'its fault-free twin; for a subset of histories every abort position 1..8 (thorough: 1..14) of every run is '
               'enumerated (aborted run, same run again, rest of the history). A run is one history. Non-trivial = '
               'a completed run started from a stale, tampered or partially written database; distinct = SHA-256 of the history.'),
      'states_measure': 'distinct database states seen before a run (hash of table name -> contents)',
      'sim_time_unit': 'SQL statements executed',
      'components': {
          'real': ['parser, compiler (Annotations.Ground/AttachedDatabases, TranslateTableAttachedToFile, defines_and_exports)',
                   'logica.py main() run_to_csv (path cli) and its SQLite branch call for call (path script)',
                   'common/sqlite3_logica.RunSqlScript', 'tools/run_in_terminal.SqlRunner/RunSQL + concertina_lib.ExecuteLogicaProgram',
                   'SQLite on a real file in a per-run scratch directory'],
          'stub': ['sqlite3_logica.SqliteConnect -> fault-injecting, observing proxy around the real connection'],
          'not_run': []},
      'expected_probes': ['failed_connection_kept_alive_across_later_runs', 'reader_ran_while_stale_copy_of_input_existed', 'abort_between_drop_and_create',
                          'requested_predicate_is_itself_grounded', 'immediate_rerun_compared'],
      'assumptions': [
          'reference evaluator lsim/ref.py (bag semantics from docs/learn/logica.md)',
          'after an aborted run only atomicity is demanded (each grounded table old, new or absent); the next completed run must restore every check; fault-free twins run with no relaxation',
          'crashes at statement boundaries plus real SQLite statement rollback; Python sqlite3 has no VFS hook, so no torn pages or lost fsyncs',
          'a grounded table that a run writes although no requested predicate needs it is allowed (counted as a probe) as long as it holds what the predicate evaluates to',
      ],
  }
