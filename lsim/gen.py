"""Seeded generator of small Logica programs over the harness' own AST, and its renderer.

AST (JSON-able):
  program = {'preds': [pred, ...], 'ground': [name, ...], 'recursive': {name: depth or
             {'depth': d, 'iterative': bool}}, 'attach': path or None, 'noise': [annotation text]}
  pred    = {'name', 'arity', 'kind': 'edb'|'bag'|'distinct'|'agg', 'rows' (edb),
             'op' (agg: '+=', 'Min=', 'Max='), 'rules': [rule, ...]}
  rule    = {'head': [term], 'atoms': [[pred, [term], valvar or None]], 'cmps': [[var, op, term]],
             'aggval': term or None}
  term    = ['c', int] | ['v', name] | ['e', var, op, int]
The fragment is deliberately narrow: everything in it has one meaning in
docs/learn/logica.md and SQLite evaluates it exactly (small integers only).
"""
VARS = 'xyzuvw'
STRS = ['a', 'b', 'c', 'x y', 'Z', '']
COLS = ['a', 'b', 'k', 'v', 'name', 't', 'id']


def term(t):
  if t[0] == 'c':
    if isinstance(t[1], str):
      return '"%s"' % t[1]
    return str(t[1]) if t[1] >= 0 else '(%d)' % t[1]
  if t[0] == 'v':
    return t[1]
  if t[0] == 'b':
    return '(%s %s %s)' % (term(t[1]), t[2], term(t[3]))
  return '(%s %s %d)' % (t[1], t[2], t[3])


def args_text(terms, cols):
  if cols:
    return ', '.join('%s: %s' % (c, term(t)) for c, t in zip(cols, terms))
  return ', '.join(term(t) for t in terms)


def render_rule(p, r, cols_of=None):
  cols_of = cols_of or {}
  body = []
  for q, args, valvar in r['atoms']:
    a = args_text(args, cols_of.get(q))
    if valvar:
      body.append('%s == %s(%s)' % (valvar, q, a))
    else:
      body.append('%s(%s)' % (q, a))
  for a, op, b in r['cmps']:
    body.append('%s %s %s' % (a, op, term(b)))
  for q, args in r.get('negs') or []:
    body.append('~%s(%s)' % (q, args_text(args, cols_of.get(q))))
  h = args_text(r['head'], p.get('cols'))
  tail = (' :- ' + ', '.join(body)) if body else ''
  if p['kind'] == 'bag':
    return '%s(%s)%s;' % (p['name'], h, tail)
  if p['kind'] == 'distinct':
    return '%s(%s) distinct%s;' % (p['name'], h, tail)
  return '%s(%s) %s %s%s;' % (p['name'], h, p['op'], term(r['aggval']), tail)


def render_disjunction(p, cols_of):
  """All rules of a predicate as ONE rule whose body is a disjunction: the head carries fresh
  variables, every alternative binds them (`P(q0) :- q0 == 0 | (B(y), q0 == y + 1)`). The
  documentation gives `|` the meaning of several rules."""
  hv = ['q%d' % i for i in range(p['arity'])]
  alts = []
  for r in p['rules']:
    body = []
    for q, args, valvar in r['atoms']:
      a = args_text(args, cols_of.get(q))
      body.append('%s == %s(%s)' % (valvar, q, a) if valvar else '%s(%s)' % (q, a))
    for a, op, b in r['cmps']:
      body.append('%s %s %s' % (a, op, term(b)))
    for q, args in r.get('negs') or []:
      body.append('~%s(%s)' % (q, args_text(args, cols_of.get(q))))
    for v, t in zip(hv, r['head']):
      body.append('%s == %s' % (v, term(t)))
    alts.append('(' + ', '.join(body) + ')')
  return '%s(%s)%s :- %s;' % (p['name'], ', '.join(hv), ' distinct' if p['kind'] == 'distinct' else '',
                             ' | '.join(alts))


def render(program, engine_line=True):
  out = []
  if engine_line:
    out.append('@Engine("sqlite");')
  def attach_line():
    if program.get('attach_via_flag'):
      # the file name comes from a flag with a default
      return ('@DefineFlag("db", "%s");\n@AttachDatabase("logica_home", "${db}");' % program['attach'])
    return '@AttachDatabase("logica_home", "%s");' % program['attach']
  if program.get('attach') and not program.get('attach_after_noise'):
    out.append(attach_line())
  for n in program.get('noise', []):
    out.append(n)
  if program.get('attach') and program.get('attach_after_noise'):
    out.append(attach_line())
  for name in program.get('ground', []):
    t = (program.get('ground_table') or {}).get(name)
    if t:
      out.append('@Ground(%s, "%s");' % (name, t))
    else:
      out.append('@Ground(%s);' % name)
  for name, d in sorted(program.get('recursive', {}).items()):
    if isinstance(d, dict):
      extra = ''
      if 'iterative' in d:
        extra = ', iterative: %s' % ('true' if d['iterative'] else 'false')
      out.append('@Recursive(%s, %d%s);' % (name, d['depth'], extra))
    else:
      out.append('@Recursive(%s, %d);' % (name, d))
  for p in program['preds']:
    if p.get('limit'):
      names = list(p['cols']) if p.get('cols') else ['col%d' % i for i in range(p['arity'])]
      if p['kind'] == 'agg':
        names.append('logica_value')
      out.append('@OrderBy(%s, %s);' % (p['name'], ', '.join(
          '"%s%s"' % (names[c], ' desc' if desc else '') for c, desc in p['limit']['order'])))
      out.append('@Limit(%s, %d);' % (p['name'], p['limit']['n']))
  cols_of = {p['name']: p.get('cols') for p in program['preds']}
  for p in program['preds']:
    if p['kind'] == 'edb':
      if p.get('table'):
        continue
      for row in p['rows']:
        out.append('%s(%s);' % (p['name'], args_text([['c', v] for v in row], p.get('cols'))))
      continue
    if p.get('disj') and p['kind'] in ('bag', 'distinct') and len(p['rules']) >= 2 and not p.get('cols'):
      out.append(render_disjunction(p, cols_of))
      continue
    for r in p['rules']:
      out.append(render_rule(p, r, cols_of))
  for f in program.get('functors') or []:
    out.append('%s := %s(%s);' % (f['name'], f['of'], ', '.join('%s: %s' % kv for kv in sorted(f['args'].items()))))
  return '\n'.join(out) + '\n'


# ------------------------------------------------------------------ non-recursive programs

def gen_edb(r, name, arity=None, nrows=None, dom=5, typed=False, types=None):
  ar = arity or r.randint(1, 2)
  n = nrows if nrows is not None else r.randint(1, 6)
  if types is None:
    types = ['s' if (typed and r.random() < 0.3) else 'i' for _ in range(ar)]
  rows = [[(r.choice(STRS) if t == 's' else r.randint(0, dom - 1)) for t in types] for _ in range(n)]
  d = {'name': name, 'arity': ar, 'kind': 'edb', 'rows': rows, 'rules': [], 'types': types}
  if typed and r.random() < 0.35:
    d['cols'] = r.sample(COLS, ar)
  return d


def const_of(r, t):
  return ['c', r.choice(STRS)] if t == 's' else ['c', r.randint(0, 4)]


def gen_rule(r, preds, arity, kind, allow_expr=True, want_types=None):
  natoms = r.randint(1, 3)
  atoms = []
  bound = []
  vtype = {}
  for _a in range(natoms):
    q = r.choice(preds)
    qtypes = q.get('types') or ['i'] * q['arity']
    args = []
    for k in range(q['arity']):
      t = qtypes[k]
      same = [v for v in bound if vtype[v] == t]
      x = r.random()
      if x < 0.15:
        args.append(const_of(r, t))
      elif x < 0.55 and same:
        args.append(['v', r.choice(same)])
      else:
        names = list(dict.fromkeys(bound))
        if len(names) < len(VARS):
          v = VARS[len(names)]
        elif same:
          v = r.choice(same)
        else:
          args.append(const_of(r, t))
          continue
        args.append(['v', v])
        if v not in vtype:
          vtype[v] = t
          bound.append(v)
    valvar = None
    if q['kind'] == 'agg':
      valvar = 'a%d' % len(atoms)
    atoms.append([q['name'], args, valvar])
    if valvar:
      bound.append(valvar)
      vtype[valvar] = 'i'
  bound = list(dict.fromkeys(bound))
  if not bound:
    return None
  ints = [v for v in bound if vtype[v] == 'i']
  cmps = []
  if r.random() < 0.5:
    a = r.choice(bound)
    op = r.choice(['<', '<=', '==', '!=', '>', '>='])
    same = [v for v in bound if vtype[v] == vtype[a]]
    if r.random() < 0.6:
      b = ['c', r.choice(STRS)] if vtype[a] == 's' else ['c', r.randint(0, 5)]
    else:
      b = ['v', r.choice(same)]
    cmps.append([a, op, b])
  head = []
  types = []
  for k in range(arity):
    want = want_types[k] if want_types else None
    cands = [v for v in bound if want is None or vtype[v] == want]
    x = r.random()
    if cands and (x < 0.7 or not allow_expr or want == 's'):
      v = r.choice(cands)
      head.append(['v', v])
      types.append(vtype[v])
    elif want == 's':
      head.append(['c', r.choice(STRS)])
      types.append('s')
    elif x < 0.85 or not ints:
      head.append(['c', r.randint(0, 4)])
      types.append('i')
    else:
      head.append(['e', r.choice(ints), r.choice(['+', '-', '*']), r.randint(0, 3)])
      types.append('i')
  aggval = None
  if kind == 'agg':
    aggval = ['v', r.choice(ints)] if (ints and r.random() < 0.7) else ['c', 1]
  return {'head': head, 'atoms': atoms, 'cmps': cmps, 'aggval': aggval, 'types': types}


# Predicate names users actually write: digits, underscores, suffixes that look like (but are
# not) the compiler's own generated names (_r<N>, _fr<N>, _ifr<N>, _f<N> are never produced here).
NAME_POOL = ['P%d', 'P%d', 'P%d', 'Sales_q%d', 'Plan_v%d', 'T%d_x', 'Rates_y202%d', 'Node%d', 'A_b%d',
             'Q%dTotal', 'Step_%d', 'Tmp%d']


LONG = 'AVeryLongPredicateNameThatGoesOnAndOnBecauseSomebodyGeneratedItFromAFilePathOrAQuestionnaire'


def idb_name(r, i):
  if r.random() < 0.04:
    return '%s_%s_%d' % (LONG, LONG[:20], i)      # more than 100 characters
  return r.choice(NAME_POOL) % i


def gen_nonrecursive(r, n_idb=None, min_idb=1, plain_names=False):
  typed = not plain_names and r.random() < 0.6     # strings and named columns in the mix
  preds = []
  for i in range(r.randint(1, 2)):
    preds.append(gen_edb(r, 'E%d' % i, typed=typed))
  n = n_idb or r.randint(max(min_idb, 1), 5)
  i = 0
  tries = 0
  while len([p for p in preds if p['kind'] != 'edb']) < n and tries < 40:
    tries += 1
    kind = r.choice(['bag', 'bag', 'distinct', 'agg'])
    ar = r.randint(1, 2)
    rules = []
    types = None
    for _ in range(r.randint(1, 2)):
      rule = gen_rule(r, preds, ar, kind, want_types=types)
      if rule:
        types = rule.pop('types')
        rules.append(rule)
    if not rules:
      continue
    d = {'name': 'P%d' % i if plain_names else idb_name(r, i), 'arity': ar, 'kind': kind, 'rules': rules,
         'types': types}
    if typed and r.random() < 0.3:
      d['cols'] = r.sample(COLS, ar)
    if kind == 'agg':
      d['op'] = r.choice(['+=', 'Min=', 'Max='])
    preds.append(d)
    i += 1
  # top-N predicates: @OrderBy over ALL columns (a total order, so the cut is defined) + @Limit
  idb = [q for q in preds if q['kind'] != 'edb']
  if idb and r.random() < 0.3:
    for q in r.sample(idb, min(len(idb), r.choice([1, 1, 2]))):
      ncols = q['arity'] + (1 if q['kind'] == 'agg' else 0)
      order = list(range(ncols))
      r.shuffle(order)
      q['limit'] = {'n': r.choice([1, 2, 3, 5]), 'order': [[c, r.random() < 0.4] for c in order]}
  return {'preds': preds, 'ground': [], 'recursive': {}, 'attach': None, 'noise': []}


def gen_withchain(r):
  """A grounded base table read through nested helper predicates (compiled as WITH tables) by
  several grounded readers, in drawn orders: Base <- Known <- Big; readers of Known, of both,
  of Big only; a top predicate over the readers."""
  n = r.randint(4, 7)
  vals = r.sample(range(0, 9), n)
  preds = [{'name': 'E0', 'arity': 1, 'kind': 'edb', 'rows': [[v] for v in vals] + ([[vals[0]]] if r.random() < 0.4 else []), 'rules': []}]
  hk = r.choice(['distinct', 'distinct', 'agg'])
  def helper(name, src, bound):
    if hk == 'agg':
      return {'name': name, 'arity': 1, 'kind': 'agg', 'op': '+=', 'rules': [
          rule([V('x')], [[src, [V('x')] if src in ('Base', 'E0') else [V('x')], 'm9' if False else None]] if src in ('Base', 'E0') else [[src, [V('x')], 'm9']],
               [['x', '>', C(bound)]], aggval=C(1))]}
    return {'name': name, 'arity': 1, 'kind': 'distinct', 'rules': [
        rule([V('x')], [[src, [V('x')], None]], [['x', '>', C(bound)]])]}
  preds.append({'name': 'Base', 'arity': 1, 'kind': 'bag', 'rules': [rule([V('x')], [['E0', [V('x')], None]])]})
  preds.append(helper('Known', 'Base', r.choice([0, 1])))
  preds.append(helper('Big', 'Known', r.choice([1, 2, 3])))
  val = 'v9' if hk == 'agg' else None
  def atom(h):
    return [h, [V('x')], val and (val + h.lower())]
  readers = []
  shapes = [('Agg0', ['Known']), ('Agg1', ['Known', 'Big']), ('Agg2', ['Big']), ('Agg3', ['Big', 'Known']), ('Agg4', ['Known'])]
  chosen = [shapes[0], shapes[1], shapes[2]] if r.random() < 0.5 else r.sample(shapes, r.choice([2, 3, 4]))
  if r.random() < 0.5:
    r.shuffle(chosen)
  for name, hs in chosen:
    preds.append({'name': name, 'arity': 1, 'kind': 'bag', 'rules': [rule([V('x')], [atom(h) for h in hs])]})
    readers.append(name)
  top_atoms = [[n_, [V('x')], None] for n_ in readers]
  if r.random() < 0.5:
    r.shuffle(top_atoms)
  preds.append({'name': 'Test', 'arity': 1, 'kind': r.choice(['bag', 'distinct']), 'rules': [rule([V('x')], top_atoms)]})
  ground = ['Base'] + [n_ for n_ in readers if r.random() < 0.85]
  return {'preds': preds, 'ground': sorted(set(ground)), 'recursive': {}, 'attach': None, 'noise': []}


def idb_names(program):
  return ([p['name'] for p in program['preds'] if p['kind'] != 'edb'] +
          [f['name'] for f in program.get('functors') or []])


def add_functor(r, program, main):
  """`M2 := M(E: E2)`: the predicate (usually a recursive one) over another extensional input.
  Only the Logica text carries the functor; the reference evaluates explicit copies
  (ref.expand_functors)."""
  by = {p['name']: p for p in program['preds']}
  closure = dependants(program)
  members = [n for n in idb_names(program) if n in by]
  target = r.choice([main, main] + members)
  edbs = sorted(n for n in closure[target] if by[n]['kind'] == 'edb' and not by[n].get('table'))
  if not edbs:
    return False
  e = r.choice(edbs)
  src = by[e]
  rows = [list(x) for x in src['rows']]
  how = r.choice(['shorter', 'shifted', 'longer'])
  if how == 'shorter' and len(rows) > 1:
    rows = rows[:max(1, len(rows) // 2)]
  elif how == 'longer' and src['arity'] >= 2:
    top = max(x[1] for x in rows)
    rows = rows + [[top, top + 1] + x[2:] for x in rows[:1]] + [[top + 1, top + 2] + x[2:] for x in rows[:1]]
  else:
    rows = rows + [list(rows[0])]
  name2 = e + 'Two'
  program['preds'].append(dict(copy_pred(src), name=name2, rows=rows))
  program.setdefault('functors', []).append({'name': target + 'Fc', 'of': target, 'args': {e: name2}})
  return True


def copy_pred(p):
  import copy
  return copy.deepcopy(p)


def dependants(program):
  """name -> set of predicate names it (transitively) depends on."""
  direct = {}
  for p in program['preds']:
    s = set()
    for rule in p.get('rules', []):
      for q, _, _ in rule['atoms']:
        s.add(q)
      for q, _ in rule.get('negs') or []:
        s.add(q)
    direct[p['name']] = s
  closure = {}
  for n in direct:
    seen = set()
    stack = list(direct[n])
    while stack:
      x = stack.pop()
      if x in seen:
        continue
      seen.add(x)
      stack.extend(direct.get(x, ()))
    closure[n] = seen
  return closure


# ------------------------------------------------------------------ recursive programs

DEPTHS = [1, 2, 3, 4, 5, 8, 8, 19, 20, 21, 22, 23, 30, 41]


def chain(r, length, start=0, noise=0, dom=None):
  rows = [[start + i, start + i + 1] for i in range(length)]
  dom = dom or (start + length + 2)
  for _ in range(noise):
    rows.append([r.randint(0, dom), r.randint(0, dom)])
  r.shuffle(rows)
  return rows


def V(n):
  return ['v', n]


def C(n):
  return ['c', n]


def rule(head, atoms=(), cmps=(), aggval=None, negs=()):
  out = {'head': list(head), 'atoms': [list(a) for a in atoms], 'cmps': [list(c) for c in cmps],
         'aggval': aggval}
  if negs:
    out['negs'] = [list(n) for n in negs]
  return out


def gen_recursive(r, depth=None):
  """One recursive program around a depth; returns (program, family)."""
  d = depth if depth is not None else r.choice(DEPTHS)
  family = r.choice(['counter', 'reach', 'tc', 'cycle2', 'cycle3', 'sp', 'random', 'random',
                     'bagpaths', 'helper', 'ring', 'ring', 'spw', 'countpaths', 'selfloop2', 'winmove', 'winmove', 'ringchord', 'ringchord'])
  around = max(1, d + r.choice([-2, -1, 0, 0, 1, 1, 2, 3]))
  preds = []
  main = None
  if family == 'counter':
    bound = around + r.choice([0, 5])
    step = r.choice([1, 1, 2])
    preds.append({'name': 'N', 'arity': 1, 'kind': 'distinct', 'rules': [
        rule([C(0)]),
        rule([['e', 'n', '+', step]], [['N', [V('n')], None]], [['n', '<', C(bound * step)]])]})
    main = 'N'
  elif family == 'reach':
    preds.append({'name': 'E', 'arity': 2, 'kind': 'edb', 'rows': chain(r, around, noise=r.randint(0, 3)), 'rules': []})
    preds.append({'name': 'S', 'arity': 1, 'kind': 'edb', 'rows': [[0]] + ([[r.randint(0, around)]] if r.random() < 0.3 else []), 'rules': []})
    preds.append({'name': 'R', 'arity': 1, 'kind': 'distinct', 'rules': [
        rule([V('x')], [['S', [V('x')], None]]),
        rule([V('y')], [['R', [V('x')], None], ['E', [V('x'), V('y')], None]])]})
    main = 'R'
  elif family == 'tc':
    n = min(around, 12)
    preds.append({'name': 'E', 'arity': 2, 'kind': 'edb', 'rows': chain(r, n, noise=r.randint(0, 2)), 'rules': []})
    second = r.choice(['linear', 'doubling'])
    if second == 'linear':
      rec = rule([V('x'), V('z')], [['TC', [V('x'), V('y')], None], ['E', [V('y'), V('z')], None]])
    else:
      rec = rule([V('x'), V('z')], [['TC', [V('x'), V('y')], None], ['TC', [V('y'), V('z')], None]])
    preds.append({'name': 'TC', 'arity': 2, 'kind': 'distinct', 'rules': [
        rule([V('x'), V('y')], [['E', [V('x'), V('y')], None]]), rec]})
    main = 'TC'
  elif family == 'cycle2':
    bound = 2 * around + 5
    k2 = r.choice(['distinct', 'distinct', 'bag'])
    preds.append({'name': 'A', 'arity': 1, 'kind': k2, 'rules': [
        rule([C(0)]),
        rule([['e', 'n', '+', 1]], [['B', [V('n')], None]], [['n', '<', C(bound)]])]})
    preds.append({'name': 'B', 'arity': 1, 'kind': k2, 'rules': [
        rule([['e', 'n', '+', 1]], [['A', [V('n')], None]], [['n', '<', C(bound)]])]})
    main = r.choice(['A', 'B'])
  elif family == 'ring':
    # a pure ring of k members with a base fact in one member only, walking along a chain;
    # usually bag-valued (no distinct, no aggregation: the cover has no auxiliary members)
    k = r.choice([2, 2, 3, 3, 4])
    names = ['A', 'B', 'Cc', 'Dd'][:k]
    kr = r.choice(['bag', 'bag', 'bag', 'distinct'])
    preds.append({'name': 'E', 'arity': 2, 'kind': 'edb', 'rows': chain(r, around + 2), 'rules': []})
    # the base fact sits in one member, in all of them, or in some
    how = r.choice(['one', 'one', 'all', 'some'])
    bases = {r.randrange(k)} if how == 'one' else set(range(k)) if how == 'all' else set(r.sample(range(k), r.randint(1, k)))
    for i, n in enumerate(names):
      rules_ = []
      if i in bases:
        rules_.append(rule([C(0)]))
      rules_.append(rule([V('y')], [[names[(i - 1) % k], [V('x')], None], ['E', [V('x'), V('y')], None]]))
      preds.append({'name': n, 'arity': 1, 'kind': kr, 'rules': rules_})
    main = r.choice(names)
  elif family == 'ringchord':
    # a directed ring of 3-4 members with one extra edge (a self loop or a chord) that the
    # annotated member usually does not cut, base facts in a proper subset of the members
    k = r.choice([3, 3, 4])
    names = ['A', 'B', 'Cc', 'Dd'][:k]
    kr = r.choice(['distinct', 'distinct', 'bag'])
    preds.append({'name': 'E', 'arity': 2, 'kind': 'edb', 'rows': chain(r, around + 2), 'rules': []})
    bases = set(r.sample(range(k), r.randint(1, k - 1)))
    extra_to = r.randrange(k)
    extra_from = r.choice([extra_to] + [j for j in range(k) if j != (extra_to - 1) % k])
    for i, n in enumerate(names):
      rules_ = []
      if i in bases:
        rules_.append(rule([C(0)]))
      rules_.append(rule([V('y')], [[names[(i - 1) % k], [V('x')], None], ['E', [V('x'), V('y')], None]]))
      if i == extra_to:
        rules_.append(rule([V('y')], [[names[extra_from], [V('x')], None], ['E', [V('x'), V('y')], None]]))
      preds.append({'name': n, 'arity': 1, 'kind': kr, 'rules': rules_})
    main = r.choice(names)
  elif family == 'cycle3':
    bound = around + 4
    def succ(src):
      return rule([['e', 'n', '+', 1]], [[src, [V('n')], None]], [['n', '<', C(bound)]])
    preds.append({'name': 'A', 'arity': 1, 'kind': 'distinct', 'rules': [rule([C(0)]), succ('C'), succ('B')]})
    preds.append({'name': 'B', 'arity': 1, 'kind': 'distinct', 'rules': [succ('A'), succ('C')]})
    preds.append({'name': 'C', 'arity': 1, 'kind': 'distinct', 'rules': [succ('B'), succ('A')]})
    main = r.choice(['A', 'B', 'C'])
  elif family == 'sp':
    n = around
    rows = chain(r, n, noise=r.randint(0, 4))
    preds.append({'name': 'E', 'arity': 2, 'kind': 'edb', 'rows': rows, 'rules': []})
    preds.append({'name': 'D', 'arity': 1, 'kind': 'agg', 'op': 'Min=', 'rules': [
        rule([C(0)], aggval=C(0)),
        rule([V('y')], [['D', [V('x')], 'd'], ['E', [V('x'), V('y')], None]], aggval=['e', 'd', '+', 1])]})
    main = 'D'
  elif family == 'selfloop2':
    # two members, one of them also recursive through itself: only that one cuts the component,
    # so which member carries the annotation decides the unfolding style
    preds.append({'name': 'E', 'arity': 2, 'kind': 'edb', 'rows': chain(r, around + 2), 'rules': []})
    kd = r.choice(['distinct', 'distinct', 'bag'])
    preds.append({'name': 'H', 'arity': 1, 'kind': 'distinct', 'rules': [
        rule([C(0)]),
        rule([V('y')], [['Dd', [V('y')], None]])]})
    preds.append({'name': 'Dd', 'arity': 1, 'kind': 'distinct', 'rules': [
        rule([V('x')], [['H', [V('x')], None]], [['x', '==', C(0)]]),
        rule([V('y')], [['Dd', [V('x')], None], ['E', [V('x'), V('y')], None]])]})
    main = r.choice(['H', 'Dd'])
  elif family == 'winmove':
    # recursion through negation (non-monotone): the win-move game on a chain with side
    # branches and, sometimes, a cycle (drawn positions). Two shapes: the classic one-rule Win,
    # and Lose / "has a move to a position not known lost" referring to each other under ~
    n = min(around + 1, 26)
    moves = chain(r, n)
    for _ in range(r.choice([0, 1, 2])):
      a = r.randint(0, n)
      moves.append([a, r.randint(0, n)])
    if r.random() < 0.3:
      moves.append([n, r.randint(0, n)])       # a cycle: draws
    preds.append({'name': 'Move', 'arity': 2, 'kind': 'edb', 'rows': moves, 'rules': []})
    shape = r.choice(['classic', 'two', 'three', 'three'])
    if shape == 'classic':
      preds.append({'name': 'Win', 'arity': 1, 'kind': 'distinct', 'rules': [
          rule([V('x')], [['Move', [V('x'), V('y')], None]], negs=[['Win', [V('y')]]])]})
      main = 'Win'
    elif shape == 'three':
      # Win <- Lose positively, Nwm <- ~Win, Lose <- base rule | ~Nwm: a member that is derived
      # empty in the first generation is referred to under a negation only
      pos = sorted({v for m_ in moves for v in m_})
      preds.append({'name': 'Pos', 'arity': 1, 'kind': 'edb', 'rows': [[v] for v in pos], 'rules': []})
      preds.append({'name': 'HasMove', 'arity': 1, 'kind': 'distinct', 'rules': [
          rule([V('x')], [['Move', [V('x'), V('y')], None]])]})
      preds.append({'name': 'Win', 'arity': 1, 'kind': 'distinct', 'rules': [
          rule([V('x')], [['Move', [V('x'), V('y')], None], ['Lose', [V('y')], None]])]})
      preds.append({'name': 'Nwm', 'arity': 1, 'kind': 'distinct', 'rules': [
          rule([V('x')], [['Move', [V('x'), V('y')], None]], negs=[['Win', [V('y')]]])]})
      preds.append({'name': 'Lose', 'arity': 1, 'kind': 'distinct', 'rules': [
          rule([V('x')], [['Pos', [V('x')], None]], negs=[['HasMove', [V('x')]]]),
          rule([V('x')], [['HasMove', [V('x')], None]], negs=[['Nwm', [V('x')]]])]})
      main = r.choice(['Lose', 'Win', 'Nwm'])
    else:
      pos = sorted({v for m_ in moves for v in m_})
      preds.append({'name': 'Pos', 'arity': 1, 'kind': 'edb', 'rows': [[v] for v in pos], 'rules': []})
      preds.append({'name': 'Nwm', 'arity': 1, 'kind': 'distinct', 'rules': [
          rule([V('x')], [['Move', [V('x'), V('y')], None]], negs=[['Lose', [V('y')]]])]})
      preds.append({'name': 'Lose', 'arity': 1, 'kind': 'distinct', 'rules': [
          rule([V('x')], [['Pos', [V('x')], None]], negs=[['Nwm', [V('x')]]])]})
      preds.append({'name': 'Win', 'arity': 1, 'kind': 'distinct', 'rules': [
          rule([V('x')], [['Move', [V('x'), V('y')], None], ['Lose', [V('y')], None]])]})
      main = r.choice(['Lose', 'Win', 'Nwm'])
  elif family == 'spw':
    # weighted shortest paths: recursion through Min= with a value built from two variables
    n = around
    rows = [[a, b, r.choice([1, 1, 2, 3])] for a, b in chain(r, n, noise=r.randint(0, 4))]
    preds.append({'name': 'E', 'arity': 3, 'kind': 'edb', 'rows': rows, 'rules': []})
    preds.append({'name': 'D', 'arity': 1, 'kind': 'agg', 'op': 'Min=', 'rules': [
        rule([C(0)], aggval=C(0)),
        rule([V('y')], [['D', [V('x')], 'd'], ['E', [V('x'), V('y'), V('w')], None]],
             aggval=['b', V('d'), '+', V('w')])]})
    main = 'D'
  elif family == 'countpaths':
    # recursion through += : number of walks of bounded length from node 0
    n = min(around, 9)
    rows = chain(r, n) + [[i, i + 2] for i in range(0, n - 1, 3)]
    preds.append({'name': 'E', 'arity': 2, 'kind': 'edb', 'rows': rows, 'rules': []})
    preds.append({'name': 'W', 'arity': 1, 'kind': 'agg', 'op': '+=', 'rules': [
        rule([C(0)], aggval=C(1)),
        rule([V('y')], [['W', [V('x')], 'm'], ['E', [V('x'), V('y')], None]], aggval=V('m'))]})
    main = 'W'
  elif family == 'bagpaths':
    # non-distinct recursion: multiplicities count derivations
    n = min(around, 6)
    preds.append({'name': 'E', 'arity': 2, 'kind': 'edb', 'rows': chain(r, n, noise=r.randint(0, 2), dom=n + 1), 'rules': []})
    preds.append({'name': 'W', 'arity': 1, 'kind': 'bag', 'rules': [
        rule([C(0)]),
        rule([V('y')], [['W', [V('x')], None], ['E', [V('x'), V('y')], None]], [['y', '>', V('x')]])]})
    main = 'W'
  elif family == 'helper':
    # recursion through a non-distinct helper predicate: cover {R, H}
    preds.append({'name': 'E', 'arity': 2, 'kind': 'edb', 'rows': chain(r, max(1, around // 2), noise=r.randint(0, 2)), 'rules': []})
    preds.append({'name': 'R', 'arity': 1, 'kind': 'distinct', 'rules': [
        rule([C(0)]),
        rule([V('y')], [['H', [V('y')], None]])]})
    preds.append({'name': 'H', 'arity': 1, 'kind': 'distinct', 'rules': [
        rule([V('y')], [['R', [V('x')], None], ['E', [V('x'), V('y')], None]])]})
    main = r.choice(['R', 'H'])
  else:
    # random monotone program over a finite domain
    nodes = min(around + 1, 14)
    preds.append({'name': 'E', 'arity': 2, 'kind': 'edb', 'rows': chain(r, nodes - 1, noise=r.randint(0, 4), dom=nodes), 'rules': []})
    preds.append({'name': 'F', 'arity': 2, 'kind': 'edb', 'rows': chain(r, max(1, nodes // 2), noise=r.randint(0, 3), dom=nodes), 'rules': []})
    k = r.choice([1, 2, 2, 3])
    names = ['A', 'B', 'Cc'][:k]
    for i, n in enumerate(names):
      rules = []
      if i == 0 or r.random() < 0.4:
        rules.append(rule([C(0)]))
      # recursive rules: next member in a ring, plus optional extra edges
      srcs = [names[(i + 1) % k]]
      if r.random() < 0.5:
        srcs.append(r.choice(names))
      for s in srcs:
        e = r.choice(['E', 'F', 'E'])
        if r.random() < 0.5:
          rules.append(rule([V('y')], [[s, [V('x')], None], [e, [V('x'), V('y')], None]]))
        else:
          rules.append(rule([V('y')], [[e, [V('x'), V('y')], None], [s, [V('x')], None]]))
      if r.random() < 0.3:
        rules.append(rule([V('x')], [[r.choice(names), [V('x')], None], [r.choice(names), [V('x')], None]]))
      preds.append({'name': n, 'arity': 1, 'kind': 'distinct', 'rules': rules})
    main = r.choice(names)
  members = [p['name'] for p in preds if p['kind'] != 'edb']
  # SQLite re-evaluates a CTE per reference, so a non-iterative unfolding costs about
  # fan^depth; keep that bounded (a performance matter outside the property).
  fan = 1
  for p in preds:
    if p['kind'] != 'edb':
      k = sum(1 for ru in p['rules'] for a in ru['atoms'] if a[0] in members)
      if family == 'random':
        fan *= max(k, 1)     # a vertical unfolding inlines the other members
      else:
        fan = max(fan, k)
  if fan > 1 and d <= 20:
    while d > 1 and fan ** d > 5000:
      d -= 1
  # downstream dependants
  if r.random() < 0.6:
    src = r.choice(members)
    sp = [p for p in preds if p['name'] == src][0]
    hv = [V(VARS[i]) for i in range(sp['arity'])]
    preds.append({'name': 'Out', 'arity': 1, 'kind': r.choice(['bag', 'distinct']), 'rules': [
        rule([hv[0]], [[src, hv, None]], [[hv[0][1], r.choice(['>', '<=', '!=']), C(r.randint(0, d))]])]})
  if r.random() < 0.4:
    src = r.choice(members)
    sp = [p for p in preds if p['name'] == src][0]
    hv = [V(VARS[i]) for i in range(sp['arity'])]
    preds.append({'name': 'Cnt', 'arity': 1, 'kind': 'agg', 'op': '+=', 'rules': [
        rule([C(0)], [[src, hv, None]], aggval=C(1))]})
  # a predicate two levels above the recursion that also reads an extensional input itself
  outs = [p for p in preds if p['name'] == 'Out']
  edb2 = [p for p in preds if p['kind'] == 'edb' and p['arity'] == 2 and not p.get('table')]
  if outs and edb2 and r.random() < 0.5:
    e = r.choice(edb2)
    preds.append({'name': 'Top', 'arity': 1, 'kind': r.choice(['distinct', 'bag']), 'rules': [
        rule([V('y')], [['Out', [V('x')], None], [e['name'], [V('x'), V('y')] + [V('w%d' % i) for i in range(e['arity'] - 2)], None]])]})
  # a second recursive component: stacked on the first or independent, usually left to the
  # default depth (so that depth settings of one component cannot leak into another unseen)
  second = None
  if r.random() < 0.3:
    second = r.choice(['stacked', 'independent', 'independent_first'])
    n2 = r.choice([6, 9, 10, 12])
    zrules = [rule([['e', 'n', '+', 1]], [['Z', [V('n')], None]], [['n', '<', C(n2)]])]
    if second == 'stacked':
      src = [p for p in preds if p['name'] == main][0]
      hv = [V(VARS[i]) for i in range(src['arity'])]
      zrules.insert(0, rule([hv[0]], [[main, hv, src['kind'] == 'agg' and 'a9' or None]], [[hv[0][1], '<', C(3)]]))
      zrules.insert(0, rule([C(0)]))
    else:
      zrules.insert(0, rule([C(0)]))
    zp = {'name': 'Z' if second != 'independent_first' else 'Aa', 'arity': 1, 'kind': 'distinct', 'rules': zrules}
    if zp['name'] == 'Aa':
      for ru in zp['rules']:
        for a in ru['atoms']:
          if a[0] == 'Z':
            a[0] = 'Aa'
      preds.insert(0, zp)
    else:
      preds.append(zp)
  recursive = {}
  if d != 8 or r.random() < 0.3:
    ann = r.choice(members) if family in ('cycle2', 'cycle3', 'random', 'helper', 'ring', 'selfloop2', 'ringchord') else main
    if family == 'winmove':
      ann = r.choice([m for m in members if m in ('Lose', 'Nwm')] + (['Win'] if 'HasMove' in members or 'Lose' not in members else []))
    elif family not in ('cycle2', 'cycle3', 'random', 'helper', 'ring', 'selfloop2', 'ringchord'):
      ann = [m for m in members if m in ('N', 'R', 'TC', 'D', 'W')][0]
    recursive[ann] = d
    # two annotated members in one component: the smallest annotated name decides
    others = [m for m in members if m != ann]
    if family in ('cycle2', 'cycle3', 'random', 'helper', 'ring', 'ringchord') and others and r.random() < 0.35:
      recursive[r.choice(others)] = max(1, min(d, r.choice([2, 3, 5, 8, d])))
  if second and r.random() < 0.4:
    # sometimes deep too: two iteratively unfolded components in one program
    recursive[[p['name'] for p in preds if p['name'] in ('Z', 'Aa')][0]] = r.choice([3, 5, 11, 12, 21, 24, 30])
  for p_ in preds:
    # some predicates are written as one rule with `|` between what would be their rules
    if p_['kind'] in ('bag', 'distinct') and len(p_.get('rules') or []) >= 2 and r.random() < 0.25:
      p_['disj'] = True
  program = {'preds': preds, 'ground': [], 'recursive': recursive, 'attach': None, 'noise': []}
  return program, family, main
