"""Greedy delta debugging over an engine's explicit case representation.

engine.shrink(case) yields candidate smaller cases (most aggressive first);
a candidate is accepted when engine.run_case still reports a violation of the same
class (and, when the engine sets one, the same key).  Deterministic: no randomness,
bounded by a wall-clock budget that only decides where the search *stops* (the
result is always a case that was re-executed and failed).
"""
import time

from lsim import core


def same(v, target):
  return v['class'] == target['class'] and v.get('key') == target.get('key')


def minimise(engine, case, violation, scratch, budget_s):
  t0 = time.time()
  tried = 0
  accepted = 0
  best = case
  best_v = violation
  progress = True
  while progress and time.time() - t0 < budget_s:
    progress = False
    for cand in engine.shrink(best):
      if time.time() - t0 >= budget_s:
        break
      tried += 1
      try:
        vs = engine.run_case(cand, scratch)
      except Exception:
        continue  # a candidate that breaks the harness is simply not smaller
      hit = [v for v in vs if same(v, violation)]
      if hit:
        best, best_v = cand, hit[0]
        accepted += 1
        progress = True
        break
  return {'case': best, 'violation': best_v, 'tried': tried, 'accepted': accepted,
          'size_before': len(core.canon(case)), 'size_after': len(core.canon(best))}


# Generic helpers for engines' shrink() implementations.

def drop_chunks(seq, min_len=0):
  """Yields copies of seq with a chunk removed: halves, quarters, ..., single items."""
  n = len(seq)
  size = n // 2
  while size >= 1:
    for start in range(0, n, size):
      cand = seq[:start] + seq[start + size:]
      if len(cand) >= min_len and len(cand) < n:
        yield cand
    size //= 2


def smaller_ints(x, floor=0):
  if x > floor:
    yield floor
    if (x + floor) // 2 not in (x, floor):
      yield (x + floor) // 2
    if x - 1 != floor:
      yield x - 1
