"""C14 layer P: plan ASSEMBLY - the real ExecuteLogicaProgram / RenamePredicate /
ConcertinaConfig / ConcertinaQueryEngine on abstract executions under a simulated sql_runner.

An abstract program is a DAG of tables (grounded predicates), some external data tables and
optional iteration groups.  For every requested predicate q the harness builds what the
compiler would hand over: an execution object whose table_to_export_map holds the statements
of q's grounded closure plus q's own final statement, with the dependency edges among them.
Several requested predicates share tables, and a requested predicate may be an intermediate
of another (the renaming path).  The sql_runner is the simulator: it records calls, owns
failures and returns a token as the "table" of a final statement.
"""
import contextlib
import io
import sys

from lsim import core
from lsim import concworld
from lsim import minimise

INF = 1000000000


class FakeExecution(object):
  def __init__(self, main, export, dep, data, iterations, preamble):
    self.main_predicate = main
    self.table_to_export_map = export
    self.dependency_edges = dep
    self.data_dependency_edges = data
    self.iterations = iterations
    self.preamble = preamble

  def PredicateSpecificPreamble(self, predicate):
    return '-- udfs of %s\n' % predicate


def gen_program(r):
  n = r.randint(2, 9)
  names = r.sample(['A', 'B', 'C', 'D', 'E', 'F', 'G', 'H', 'K', 'M', 'P_ifr1', 'P_ifr2', 'Q', 'R',
                    'S', 'T', 'U', 'V', 'W', 'X', 'Y', 'Z', 'a1', 'a2', 'b'], n)
  data = ['d%d' % i for i in range(r.choice([0, 0, 1, 2]))]
  deps = {}
  reads_data = {}
  for i, t in enumerate(names):
    k = r.choice([0, 1, 1, 2, 3])
    deps[t] = sorted(r.sample(names[:i], min(k, i)))
    reads_data[t] = sorted(r.sample(data, r.choice([0, 0, 1]) if data else 0)) if data else []
  # one optional iteration group among consecutive tables (two-half, compiler shaped)
  iterations = {}
  if n >= 4 and r.random() < 0.4:
    start = r.randint(0, n - 2)
    size = 2
    members = names[start:start + size]
    # lower reads upper; both halves share their external inputs
    deps[members[1]] = sorted(set(deps[members[0]]) | {members[0]})
    sig = '/tmp/logical_stop_%s.json' % members[0] if r.random() < 0.5 else None
    iterations['it_' + members[0]] = {'predicates': list(members), 'repetitions': r.choice([1, 2, 3, 4] + ([5, 6] if sig else [])),
                                     'stop_signal': sig, 'mode': None}
    # nothing between the members, and later tables may read either member
  in_group = {p for it in iterations.values() for p in it['predicates']}
  pool = [x for x in names if x not in in_group]
  requested = r.sample(pool, min(len(pool), r.choice([1, 1, 2, 2, 3, 4])))
  # tables of the database that the program reads but does not produce: they reach the plan
  # through dependency_edges (no export statement), not through data_dependency_edges
  external = {}
  for t in names:
    external[t] = ['ext%d' % r.randint(0, 1)] if r.random() < 0.15 else []
  # a data table may reach the same reader through BOTH edge sets
  both = {t: (reads_data[t][:1] if reads_data[t] and r.random() < 0.3 else []) for t in names}
  return {'names': names, 'data': data, 'deps': deps, 'reads_data': reads_data,
          'iterations': iterations, 'requested': requested, 'external': external, 'both': both,
          'preambles': r.choice([1, 1, 2])}


def closure(prog, q):
  seen = []
  stack = [q]
  while stack:
    x = stack.pop()
    for d in prog['deps'][x]:
      if d not in seen:
        seen.append(d)
        stack.append(d)
  return seen


def build_executions(prog, r_order=None):
  execs = []
  members = {}
  for k, it in prog['iterations'].items():
    for p in it['predicates']:
      members[p] = k
  for qi, q in enumerate(prog['requested']):
    cl = closure(prog, q)
    # iteration closure: if one member participates, all do (the compiler guarantees this)
    for t in list(cl) + [q]:
      if t in members:
        for m in prog['iterations'][members[t]]['predicates']:
          if m not in cl and m != q:
            cl.append(m)
            for x in closure(prog, m):
              if x not in cl and x != q:
                cl.append(x)
    export = {}
    for t in cl:
      export[t] = 'CREATE %s' % t
    export[q] = 'SELECT %s' % q
    dep = []
    data = []
    for t in cl + [q]:
      for d in prog['deps'][t]:
        if d in export or d == q:
          dep.append((d, t))
      for d in prog['reads_data'][t]:
        data.append((d, t))
      for d in (prog.get('external') or {}).get(t, []):
        dep.append((d, t))
      for d in (prog.get('both') or {}).get(t, []):
        dep.append((d, t))
    its = {k: dict(it) for k, it in prog['iterations'].items()
           if any(p in export for p in it['predicates'])}
    pre = 'ATTACH common;' if prog['preambles'] == 1 else 'ATTACH common; -- types of %s' % q
    execs.append(FakeExecution(q, export, set(dep), set(data), its, pre))
  return execs


class SimRunner(object):
  def __init__(self, error_at, world=None, signal=None):
    self.calls = []
    self.error_at = error_at
    self.world = world
    self.signal = signal          # (call index, path, content): the engine raises the stop signal
    self.visible = []             # per call: is a non-empty signal file visible after it?

  def __call__(self, sql, engine, is_final):
    self.calls.append([sql, is_final])
    if self.signal and len(self.calls) == self.signal[0]:
      self.world.fs[self.signal[1]] = self.signal[2]
    if self.world is not None:
      self.visible.append(sorted(k for k, v in self.world.fs.items() if v))
    if self.error_at is not None and len(self.calls) == self.error_at:
      raise concworld.SimEngineError('injected engine error at call %d' % len(self.calls))
    if is_final:
      return ['col0'], [['rows of ' + sql]]
    return None


def execute(case, execs=None):
  from lsim import concsim
  cl = concsim.cl()
  world = concworld.World()
  concworld.install(cl, world)
  prog = case['program']
  if execs is None:
    execs = build_executions(prog)
  sig = None
  if case.get('signal_at') is not None:
    paths = sorted(it['stop_signal'] for it in prog['iterations'].values() if it.get('stop_signal'))
    if paths:
      sig = (case['signal_at'], paths[0], 'stop')
  for path in case.get('stale_files') or []:
    world.fs[path] = 'stale'
  runner = SimRunner(case.get('error_at'), world, sig)
  out = {'outcome': 'returned', 'detail': '', 'result': None}
  old = sys.stdout
  sys.stdout = io.StringIO()
  try:
    try:
      out['result'] = cl.ExecuteLogicaProgram(execs, runner, 'sqlite', display_mode='silent')
    except concworld.SimEngineError as e:
      out['outcome'], out['detail'] = 'engine_error', str(e)
    except AssertionError as e:
      out['outcome'], out['detail'] = 'assert', str(e)[:200]
    except Exception as e:
      out['outcome'], out['detail'] = 'crash', '%s: %s' % (type(e).__name__, str(e)[:200])
  finally:
    sys.stdout = old
  out['calls'] = runner.calls
  out['visible'] = runner.visible
  return out


def check(case, obs):
  prog = case['program']
  vs = []

  def V(klass, key, msg):
    vs.append({'class': klass, 'key': key, 'message': msg + '; calls %s' % [c[0] for c in obs['calls']][:40]})
  if obs['outcome'] == 'assert':
    V('unschedulable', 'assembled', 'well-formed assembled plan rejected: %s' % obs['detail'])
    return vs
  if obs['outcome'] == 'crash':
    V('crash', obs['detail'].split(':')[0], 'plan assembly/execution raised %s' % obs['detail'])
    return vs
  err = case.get('error_at')
  if obs['outcome'] == 'engine_error':
    if len(obs['calls']) != err:
      V('error-swallowed', 'assembled', 'calls continued after the engine error at %d' % err)
    return vs
  if err is not None and err <= len(obs['calls']):
    V('error-swallowed', 'assembled', 'engine error at call %d did not propagate' % err)
    return vs
  requested = prog['requested']
  members = {}
  for k, it in prog['iterations'].items():
    for p in it['predicates']:
      members[p] = (k, it)
  # strip preamble calls and the per-predicate preamble prefix
  body = []
  for sql, fin in obs['calls']:
    if sql.startswith('ATTACH'):
      if fin:
        V('exactly-once', 'preamble-final', 'a preamble ran as a final statement')
      continue
    stmt = sql.split('\n')[-1]
    body.append((stmt, fin))
  # which tables must be produced: closure of every requested predicate (+ iteration closure)
  needed = set()
  for e in build_executions(prog):
    for t, sql in e.table_to_export_map.items():
      if sql.startswith('CREATE'):
        needed.add(t)
  count = {}
  pos_first = {}
  pos_last = {}
  for i, (stmt, fin) in enumerate(body):
    kind, t = stmt.split(' ', 1)
    key = (kind, t)
    count[key] = count.get(key, 0) + 1
    pos_first.setdefault(key, i)
    pos_last[key] = i
    if fin != (kind == 'SELECT'):
      V('exactly-once', 'is_final-flag', '%s was passed is_final=%s' % (stmt, fin))
  # iterations: the expected member sequence is the cyclic-queue model of layer A fed with the
  # visibility of the stop signal after each member call of this very run
  from lsim import concsim
  exp_seq = {}
  for k, it in prog['iterations'].items():
    ms = it['predicates']
    if not all(m in needed for m in ms):
      continue
    vis = []
    for (sql, fin), v in zip(obs['calls'], obs.get('visible') or [[]] * len(obs['calls'])):
      stmt = sql.split('\n')[-1]
      if stmt.startswith('CREATE') and stmt.split(' ', 1)[1] in set(ms):
        vis.append(bool(it.get('stop_signal')) and it['stop_signal'] in v)
    exp_seq[k] = concsim.expected_block(list(ms), max(it['repetitions'], 1),
                                        lambda j, vis=vis: vis[j - 1] if j - 1 < len(vis) else (vis[-1] if vis else False))
  for t in needed:
    if t in members and members[t][0] in exp_seq:
      reps = exp_seq[members[t][0]].count(t)
    else:
      reps = max(members[t][1]['repetitions'], 1) if t in members else 1
    n = count.get(('CREATE', t), 0)
    if n != reps:
      V('exactly-once', 'assembled', 'table statement of %s ran %d times, expected %d' % (t, n, reps))
  for q in requested:
    if count.get(('SELECT', q), 0) != 1:
      V('exactly-once', 'final', 'final statement of %s ran %d times' % (q, count.get(('SELECT', q), 0)))
  for key in count:
    if key[0] == 'CREATE' and key[1] not in needed:
      V('exactly-once', 'unneeded', 'statement of %s ran although nothing requested needs it' % key[1])
  # inputs first: a statement of t runs after the CREATE of every table it reads has completed
  for (kind, t), first in pos_first.items():
    for d in prog['deps'][t]:
      if ('CREATE', d) not in pos_first:
        if d in needed or True:
          V('inputs-first', 'assembled', '%s %s ran but its input %s was never produced' % (kind, t, d))
        continue
      same_group = t in members and d in members and members[t][0] == members[d][0]
      if same_group:
        if pos_first[('CREATE', d)] > first:
          V('inputs-first', 'assembled', '%s %s ran before its in-iteration input %s' % (kind, t, d))
      elif pos_last[('CREATE', d)] > first:
        V('inputs-first', 'assembled', '%s %s ran before its input %s was (completely) produced' % (kind, t, d))
  # iteration order
  for k, it in prog['iterations'].items():
    ms = it['predicates']
    if not all(m in needed for m in ms):
      continue
    seq = [stmt.split(' ', 1)[1] for stmt, fin in body if stmt.startswith('CREATE') and stmt.split(' ', 1)[1] in set(ms)]
    exp = exp_seq.get(k, list(ms) * max(it['repetitions'], 1))
    if seq != exp:
      V('iteration-shape', 'assembled', 'iteration %s ran %s, declared %s' % (k, seq, exp))
  # results: each requested predicate gets the table of its own final statement
  res = obs['result'] or {}
  for q in requested:
    want = (['col0'], [['rows of -- udfs of %s\nSELECT %s' % (q, q)]])
    got = res.get(q)
    if got is None or list(got[0]) != want[0] or [list(x) for x in got[1]] != want[1]:
      V('together-vs-alone', 'final_result', 'final_result[%s] is %s, expected the rows of its own final statement' % (q, got))
  if set(res) != set(requested):
    V('together-vs-alone', 'final_result-keys', 'final_result has %s, requested %s' % (sorted(res), sorted(requested)))
  return vs


def run_case_p(case):
  execs = build_executions(case['program']) if case.get('same_executions') else None
  obs = execute(case, execs)
  vs = check(case, obs)
  again = case.get('error_at') is not None and obs['outcome'] == 'engine_error'
  if again or case.get('rerun'):
    # the process survives the (failed or completed) execution: the same request, run again
    # without faults and with the stop file removed by the caller, must behave as if nothing had
    # happened - also when the caller hands over the very same execution objects
    clean = dict(case, error_at=None, signal_at=None, stale_files=[])
    obs2 = execute(clean, execs)
    for v in check(clean, obs2):
      v = dict(v)
      v['class'] = ('after-failure:' if again else 'second-run:') + v['class']
      vs.append(v)
  return vs, obs


def shrink(case):
  prog = case['program']
  if case.get('error_at') is not None:
    yield dict(case, error_at=None)
  if len(prog['requested']) > 1:
    for q in prog['requested']:
      yield dict(case, program=dict(prog, requested=[x for x in prog['requested'] if x != q]))
  if prog['iterations']:
    yield dict(case, program=dict(prog, iterations={}))
  if any((prog.get('external') or {}).values()) or any((prog.get('both') or {}).values()):
    yield dict(case, program=dict(prog, external={}, both={}))
  if prog['data']:
    yield dict(case, program=dict(prog, data=[], reads_data={t: [] for t in prog['names']}, both={}))
  for t in prog['names']:
    if t in prog['requested'] or any(t in it['predicates'] for it in prog['iterations'].values()):
      continue
    names = [x for x in prog['names'] if x != t]
    deps = {x: [d for d in prog['deps'][x] if d != t] for x in names}
    yield dict(case, program=dict(prog, names=names, deps=deps,
                                  reads_data={x: prog['reads_data'][x] for x in names}))
  for t in prog['names']:
    for d in prog['deps'][t]:
      if any(t in it['predicates'] and d in it['predicates'] for it in prog['iterations'].values()):
        continue
      deps = dict(prog['deps'])
      deps[t] = [x for x in deps[t] if x != d]
      yield dict(case, program=dict(prog, deps=deps))


def run_batch_into(S, log, seed, batch, tier, n, hashseed):
  for i in range(n):
    r = core.rng(seed, 'C14', 'P', batch, i)
    prog = gen_program(r)
    base = {'layer': 'P', 'hashseed': hashseed, 'program': prog, 'error_at': None}
    vs, obs = run_case_p(base)
    cases = [(base, vs, obs)]
    ncalls = len(obs['calls'])
    if obs['outcome'] == 'returned' and ncalls <= 25:
      for k in range(1, ncalls + 1):
        c = dict(base, error_at=k)
        v2, o2 = run_case_p(c)
        cases.append((c, v2, o2))
    sigs = [it for it in prog['iterations'].values() if it.get('stop_signal')]
    if sigs and obs['outcome'] == 'returned' and ncalls <= 40:
      # the engine raises the stop signal at every possible call; then the same request again,
      # on fresh or on the very same execution objects
      for k in range(1, ncalls + 1):
        c = dict(base, signal_at=k, rerun=True, same_executions=bool((k + i) % 2))
        if (k + i) % 5 == 0 and ncalls > k:
          c['error_at'] = r.randint(k + 1, ncalls)      # and a later statement fails
        v2, o2 = run_case_p(c)
        cases.append((c, v2, o2))
      c = dict(base, stale_files=[sigs[0]['stop_signal']], rerun=True, same_executions=True)
      v2, o2 = run_case_p(c)
      cases.append((c, v2, o2))
    for case, vs, obs in cases:
      S.runs += 1
      S.counters['P:plans'] += 1
      if case.get('signal_at') is not None:
        S.faults_configured['P_signal_raise'] += 1
        if any(obs.get('visible') or []) and any(v for v in obs['visible']):
          S.faults_fired['P_signal_raise'] += 1
      if case.get('same_executions'):
        S.probes['P_same_execution_objects_run_twice'] += 1
      if case.get('stale_files'):
        S.faults_configured['P_signal_stale_at_start'] += 1
        S.faults_fired['P_signal_stale_at_start'] += 1
      if case.get('error_at') is not None:
        S.faults_configured['engine_error'] += 1
        if obs['outcome'] == 'engine_error':
          S.faults_fired['engine_error'] += 1
      req = set(prog['requested'])
      if any(q in closure(prog, q2) for q in req for q2 in req if q != q2):
        S.probes['P_requested_predicate_is_also_an_intermediate'] += 1
      if prog['data']:
        S.probes['P_external_data_tables'] += 1
      if any((prog.get('external') or {}).values()):
        S.probes['P_tables_read_but_not_produced'] += 1
      if prog['iterations']:
        S.probes['P_iteration_in_assembled_plan'] += 1
      if len(req) > 1:
        S.probes['P_several_predicates_requested'] += 1
      # ExecuteLogicaProgram sends the distinct preambles in the iteration order of a set; which
      # of them comes first is not part of any property, so the log does not tell them apart
      labels = ['PREAMBLE' if c[0].startswith('ATTACH common;') else c[0] for c in obs['calls']]
      S.states.add(core.digest64(['P', labels]))
      if len(prog['requested']) > 1 or prog['iterations'] or case.get('error_at') is not None:
        S.nontrivial.add(core.digest64(case))
      log.add('P', core.digest(case)[:16], labels, obs['outcome'], [v['class'] for v in vs])
      for v in vs:
        if len(S.violations) < 40:
          v = dict(v)
          v['case'] = case
          S.violations.append(v)
