"""Common machinery of the deterministic simulator: seeds, event logs, batches, children.

Everything random in a check is derived from one integer (VERIF_SEED) through
SHA-256; Python's hash() is never used by the harness.  A *batch* is a fixed block
of runs executed in its own child interpreter which is started with an explicit
PYTHONHASHSEED (the hash seed of the simulated process); the parent only merges
batch summaries in batch order, so results do not depend on the number of OS
workers or on completion order.
"""
import collections
import hashlib
import json
import os
import random
import shutil
import subprocess
import sys
import tempfile
import time

VERIF = os.path.dirname(os.path.dirname(os.path.abspath(__file__)))
REPO = os.environ.get('LSIM_REPO', '/repo')
PY = os.environ.get('LSIM_PYTHON', '/venv/bin/python')
if not os.path.exists(PY):
  PY = sys.executable

HARNESS_ERROR = 2


def sub_seed(*parts):
  h = hashlib.sha256(repr(parts).encode()).digest()
  return int.from_bytes(h[:8], 'big')


def rng(*parts):
  return random.Random(sub_seed(*parts))


def hash_seed_for(*parts):
  # PYTHONHASHSEED range is [0, 4294967295]; 0 disables randomisation, which is a
  # legal and interesting configuration too.
  return sub_seed('hashseed', *parts) % 4294967296


def canon(obj):
  return json.dumps(obj, sort_keys=True, separators=(',', ':'), default=_default)


def _default(o):
  if isinstance(o, (set, frozenset)):
    return sorted(o, key=repr)
  if isinstance(o, tuple):
    return list(o)
  if isinstance(o, bytes):
    return o.hex()
  return repr(o)


def digest(obj):
  return hashlib.sha256(canon(obj).encode()).hexdigest()


def digest64(obj):
  return int.from_bytes(hashlib.sha256(canon(obj).encode()).digest()[:8], 'big')


class EventLog(object):
  """Append-only log of what happened in one run; hashed incrementally.

  Logging never draws from a PRNG and never reads a clock.
  """

  def __init__(self, keep=False):
    self.h = hashlib.sha256()
    self.n = 0
    self.keep = keep
    self.events = []

  def add(self, *event):
    self.n += 1
    s = canon(event)
    self.h.update(s.encode())
    self.h.update(b'\n')
    if self.keep:
      self.events.append(json.loads(s))

  def hexdigest(self):
    return self.h.hexdigest()


class Summary(object):
  """What one batch reports to the parent; mergeable."""

  def __init__(self):
    self.runs = 0
    self.counters = collections.Counter()       # free-form counts (classes of workload)
    self.faults_configured = collections.Counter()
    self.faults_fired = collections.Counter()
    self.probes = collections.Counter()
    self.nontrivial = set()                     # 64-bit digests of distinct non-trivial cases
    self.states = set()                         # 64-bit digests of distinct states/traces reached
    self.sim_time = 0.0
    self.samples = []
    self.violations = []
    self.digests = []                           # per-batch event-log digests (batch order)
    self.notes = []

  MAX_SET = 4000000

  def to_json(self):
    return {
        'runs': self.runs, 'counters': dict(self.counters),
        'faults_configured': dict(self.faults_configured),
        'faults_fired': dict(self.faults_fired), 'probes': dict(self.probes),
        'nontrivial': sorted(self.nontrivial), 'states': sorted(self.states),
        'sim_time': self.sim_time, 'samples': self.samples,
        'violations': self.violations, 'digests': self.digests,
        'notes': self.notes}

  def merge_json(self, j):
    self.runs += j['runs']
    self.counters.update(j['counters'])
    self.faults_configured.update(j['faults_configured'])
    self.faults_fired.update(j['faults_fired'])
    self.probes.update(j['probes'])
    if len(self.nontrivial) < self.MAX_SET:
      self.nontrivial.update(j['nontrivial'])
    if len(self.states) < self.MAX_SET:
      self.states.update(j['states'])
    self.sim_time += j['sim_time']
    for s in j['samples']:
      if len(self.samples) < 6:
        self.samples.append(s)
    self.violations.extend(j['violations'])
    self.digests.extend(j['digests'])
    self.notes.extend(j.get('notes', []))


def child_env(hashseed, extra=None):
  env = dict(os.environ)
  env['PYTHONHASHSEED'] = str(hashseed)
  env['PYTHONDONTWRITEBYTECODE'] = '1'
  env['LSIM_REPO'] = REPO
  env['LOGICA_TERMINAL_ONELINE'] = 'no'
  env.pop('LOGICA_PARSER', None)
  env['PYTHONPATH'] = VERIF
  if extra:
    env.update(extra)
  return env


def run_child(job, hashseed, timeout, extra_env=None):
  """Runs lsim/worker.py on `job` (a JSON-able dict) in a fresh interpreter.

  Returns (status, result) where status is 'ok', 'timeout' or 'crash'.
  """
  scratch = tempfile.mkdtemp(prefix='lsim-')
  try:
    job = dict(job)
    job['scratch'] = scratch
    job['timeout'] = timeout
    job_path = os.path.join(scratch, 'job.json')
    out_path = os.path.join(scratch, 'out.json')
    with open(job_path, 'w') as f:
      json.dump(job, f)
    cmd = [PY, os.path.join(VERIF, 'lsim', 'worker.py'), job_path, out_path]
    try:
      p = subprocess.run(cmd, env=child_env(hashseed, extra_env),
                         stdout=subprocess.PIPE, stderr=subprocess.PIPE,
                         timeout=timeout + 30, cwd=scratch)
    except subprocess.TimeoutExpired:
      return 'timeout', {'error': 'child exceeded %ds' % (timeout + 30)}
    if p.returncode != 0 or not os.path.exists(out_path):
      return 'crash', {'error': 'child exit %s' % p.returncode,
                       'stderr': p.stderr.decode('utf8', 'replace')[-4000:],
                       'stdout': p.stdout.decode('utf8', 'replace')[-1000:]}
    with open(out_path) as f:
      return 'ok', json.load(f)
  finally:
    shutil.rmtree(scratch, ignore_errors=True)


def import_repo():
  """Puts the repository under test first on sys.path. Bytecode is never written into the
  repository: either not at all, or (worker processes, which re-import the repository once per
  simulated process) under the worker's own scratch directory via sys.pycache_prefix, where it
  is validated against the source files as usual and removed with the scratch directory."""
  if not sys.pycache_prefix:
    sys.dont_write_bytecode = True
  if REPO not in sys.path:
    sys.path.insert(0, REPO)


class Timer(object):
  def __init__(self):
    self.t0 = time.time()

  def elapsed(self):
    return time.time() - self.t0
