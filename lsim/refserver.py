"""Process server of histsim: a separate interpreter (own PYTHONHASHSEED) answering compile
and history requests, each in a fork of its pristine state (mode fork) or after a reset of
its module universe (mode reset).  Loaded by path."""
import os
import sys

sys.path.insert(0, os.path.dirname(os.path.dirname(os.path.abspath(__file__))))

from lsim import histsim  # noqa: E402

if __name__ == '__main__':
  histsim.refserver_main(sys.argv[1] if len(sys.argv) > 1 else 'fork')
