"""Reference server of histsim: a second interpreter (other PYTHONHASHSEED) answering
compile requests, each in a fresh fork.  Loaded by path."""
import os
import sys

sys.path.insert(0, os.path.dirname(os.path.dirname(os.path.abspath(__file__))))

from lsim import histsim  # noqa: E402

if __name__ == '__main__':
  histsim.refserver_main()
