"""SQLite world: a connection proxy installed as sqlite3_logica.SqliteConnect.

Real SQLite with the real Logica UDFs does all the work; the proxy
  (a) observes: statement order, and per statement the tables read / created /
      dropped (sqlite authorizer callback, with database name),
  (b) injects faults at chosen statement indexes of the current run:
        abort      - raise before the k-th statement (process death between statements)
        interrupt  - progress handler interrupts statement k after n VM steps
                     (real statement rollback, OperationalError: interrupted)
        full       - PRAGMA <db>.max_page_count so a CREATE hits SQLITE_FULL
        busy       - another connection holds the write lock of the attached file
                     while statement k runs (busy_timeout = 0: no real waiting)
No real sleeps anywhere.
"""
import os
import re
import sqlite3
import traceback
import weakref

from lsim import core

# The world the statements of the running simulated run are booked to.  A connection that the
# system under test keeps beyond one run (a process-wide connection, say) is a proxy created
# under an earlier world; its statements belong to the run that issues them.
CURRENT_WORLD = [None]
LIVE = weakref.WeakSet()     # proxies (hence real connections) that somebody still refers to
QUERY_RE = re.compile(r'(\s|--[^\n]*\n|/\*.*?\*/)*\(*\s*(SELECT|WITH|VALUES)\b', re.I | re.S)
WRITE_RE = re.compile(r'\s*(DROP|CREATE|INSERT|ALTER|DELETE|UPDATE)\b', re.I)
RENAME_RE = re.compile(r'ALTER\s+TABLE\s+(\S+)\s+RENAME\s+TO\s+(\S+?)\s*;?\s*$', re.I)


class SimAbort(Exception):
  """Simulated death of the client process between two statements."""


class TooExpensive(Exception):
  """A statement exceeded the harness' VM step budget; the case is discarded (counted)."""


def split_statements(script):
  """Splits an SQL script into single statements (sqlite3.complete_statement)."""
  out = []
  buf = ''
  for piece in script.split(';'):
    buf += piece + ';'
    if sqlite3.complete_statement(buf):
      if buf.strip().strip(';').strip():
        out.append(buf.strip())
      buf = ''
  rest = buf.rstrip(';')
  if rest.strip():
    # trailing text without terminator (comment or unterminated statement)
    only_comment = all(l.strip().startswith('--') or not l.strip() for l in rest.split('\n'))
    if not only_comment:
      out.append(rest.strip())
  return out


class Statement(object):
  __slots__ = ('index', 'sql', 'reads', 'creates', 'drops', 'inserts', 'attaches',
               'error', 'final', 'nrows', 'result', 'conn')

  def __init__(self, index, sql):
    self.index = index
    self.sql = sql
    self.reads = set()
    self.creates = set()
    self.drops = set()
    self.inserts = set()
    self.attaches = set()
    self.error = None
    self.final = False
    self.nrows = None
    self.result = None
    self.conn = 0

  def brief(self):
    return {'i': self.index, 'sql': ' '.join(self.sql.split())[:70],
            'reads': sorted(self.reads), 'creates': sorted(self.creates),
            'drops': sorted(self.drops), 'error': self.error}


class World(object):
  """Everything one simulated run sees of the engine; lives across connections."""

  def __init__(self, faults=None):
    self.faults = list(faults or [])
    self.fired = []
    self.statements = []
    self.current = None
    self.connections = 0
    self.locker = None
    self.full_applied = False
    self.step_budget = 200      # x 100000 SQLite VM steps per statement
    self.retain_connections = False
    self.busy_done = set()
    self.lock_left = 0
    self.lock_fault = None
    self.slept = 0.0

  def unlock(self):
    """The other client ends its transaction."""
    if self.locker is not None:
      try:
        self.locker.execute('ROLLBACK')
      except sqlite3.Error:
        pass
      self.locker.close()
      self.locker = None
    self.lock_fault = None
    self.retained = []

  def release(self):
    for e in self.retained:
      if isinstance(e, BaseException):
        traceback.clear_frames(e.__traceback__)
      else:
        e.close()
    self.retained = []

  def fault_at(self, kind, k):
    for f in self.faults:
      if f['kind'] == kind and f.get('at') == k:
        return f
    return None


SYSTEM_TABLES = ('sqlite_master', 'sqlite_temp_master', 'sqlite_schema', 'sqlite_temp_schema')


class Proxy(object):
  """Stands for a sqlite3.Connection. How long it lives is the business of the system under
  test: the harness keeps no reference beyond the run, the real connection closes when the
  proxy is released (or closed), exactly as a sqlite3.Connection would."""

  def __init__(self, world, orig_connect, database=':memory:'):
    self._w = world
    world.connections += 1
    self.conn_id = world.connections
    self.c = orig_connect(database)
    self.c.execute('PRAGMA busy_timeout=0')
    me = weakref.ref(self)      # no reference cycle through the callback: release = close

    def auth(action, a1, a2, db, src):
      p = me()
      return p._auth(action, a1, a2, db, src) if p is not None else sqlite3.SQLITE_OK
    self.c.set_authorizer(auth)
    self.closed = False
    LIVE.add(self)

  @property
  def w(self):
    return CURRENT_WORLD[0] or self._w

  def __getattr__(self, name):
    # anything of the sqlite3.Connection interface that the proxy does not observe
    return getattr(self.__dict__['c'], name)

  def __enter__(self):
    return self

  def __exit__(self, et, ev, tb):
    # sqlite3.Connection as a context manager: commit, or roll back on an exception
    if et is None:
      self.c.commit()
    else:
      self.c.rollback()
    return False

  def rollback(self):
    self.c.rollback()

  # ---- observation
  def _auth(self, action, a1, a2, db, src):
    st = self.w.current
    if st is None:
      return sqlite3.SQLITE_OK
    if action == sqlite3.SQLITE_READ:
      if a1 not in SYSTEM_TABLES:
        st.reads.add('%s.%s' % (db, a1))
    elif action == sqlite3.SQLITE_CREATE_TABLE:
      st.creates.add('%s.%s' % (db, a1))
    elif action == sqlite3.SQLITE_DROP_TABLE:
      st.drops.add('%s.%s' % (db, a1))
    elif action == sqlite3.SQLITE_INSERT:
      if a1 not in SYSTEM_TABLES:
        st.inserts.add('%s.%s' % (db, a1))
    elif action == sqlite3.SQLITE_ATTACH:
      st.attaches.add(a1)
    return sqlite3.SQLITE_OK

  # ---- one statement with faults
  def _run_one(self, sql, fetch):
    w = self.w
    k = len(w.statements) + 1
    st = Statement(k, sql)
    st.conn = self.conn_id
    w.statements.append(st)
    f = w.fault_at('abort', k)
    if f:
      w.fired.append(('abort', k))
      st.error = 'SimAbort'
      raise SimAbort('simulated process death before statement %d' % k)
    # the other client's lock only matters to a statement that writes the attached file: it is
    # taken at the first such statement at or after the drawn position
    f = None
    for x in w.faults:
      if (x['kind'] == 'busy' and x.get('at', 0) <= k and id(x) not in w.busy_done and
          WRITE_RE.match(sql) and 'logica_home' in sql):
        f = x
        w.busy_done.add(id(x))
        break
    if f and f.get('file') and os.path.exists(f['file']) and w.locker is None:
      w.locker = sqlite3.connect(f['file'], timeout=0, isolation_level=None)
      try:
        w.locker.execute('BEGIN IMMEDIATE')
        # the other client keeps its transaction open for `hold` statements of this run
        w.lock_left = f.get('hold', 1)
      except sqlite3.OperationalError:
        w.locker.close()
        w.locker = None
    elif w.locker is not None:
      f = w.lock_fault
    if f is not None and w.locker is not None:
      w.lock_fault = f
    f2 = w.fault_at('interrupt', k)
    if f2:
      budget = [f2.get('steps', 1)]
      tripped = [False]

      def handler():
        budget[0] -= 1
        if budget[0] <= 0:
          tripped[0] = True
          return 1
        return 0
      self.c.set_progress_handler(handler, 1)
    elif w.step_budget:
      left = [w.step_budget]

      def guard():
        left[0] -= 1
        return 1 if left[0] <= 0 else 0
      self.c.set_progress_handler(guard, 100000)
    w.current = st
    m = RENAME_RE.search(sql.strip())
    try:
      try:
        if fetch:
          cur = self.c.execute(sql)
          rows = cur.fetchall()
          st.nrows = len(rows)
          st.result = ([d[0] for d in cur.description or ()], [list(x) for x in rows])
          result = (cur.description, rows)
        else:
          # one statement of a script: the caller (executescript below) has put the connection
          # into sqlite3_exec semantics (no implicit BEGIN), so explicit BEGIN/COMMIT in the
          # script keep their meaning across statements
          self.c.execute(sql)
          result = None
      except MemoryError:
        st.error = 'TooExpensive'
        raise TooExpensive('statement %d exhausted the memory limit' % k)
      except sqlite3.Error as e:
        st.error = '%s: %s' % (type(e).__name__, e)
        if 'out of memory' in str(e):
          st.error = 'TooExpensive'
          raise TooExpensive('statement %d exhausted the memory limit' % k)
        msg = str(e)
        if 'interrupted' in msg and not f2:
          st.error = 'TooExpensive'
          raise TooExpensive('statement %d exceeded the VM step budget' % k)
        if f2 and tripped[0]:
          # SQLite reports an interrupted ATTACH as "unable to open database"
          w.fired.append(('interrupt', k))
        elif 'full' in msg and any(x['kind'] == 'full' for x in w.faults):
          w.fired.append(('full', k))
        elif ('locked' in msg or 'busy' in msg) and f:
          # only the injected locker counts as the fault; a lock nobody injected is the
          # system's own doing and must surface as an engine error
          w.fired.append(('busy', k))
        raise
    finally:
      w.current = None
      if m and st.error is None:
        # a table that is renamed into place is written by this statement
        old, new = m.group(1).strip('"`'), m.group(2).strip('"`')
        db = old.split('.')[0] if '.' in old else 'main'
        st.drops.add('%s.%s' % (db, old.split('.')[-1]))
        st.creates.add('%s.%s' % (db, new.split('.')[-1]))
      if f2 or w.step_budget:
        self.c.set_progress_handler(None, 1)
      if w.locker is not None:
        w.lock_left -= 1
        if w.lock_left <= 0:
          w.unlock()
    # disk-full fault: clamp the attached database once it is attached
    ff = [x for x in w.faults if x['kind'] == 'full']
    if ff and not w.full_applied and st.attaches:
      try:
        dbs = [r[1] for r in self.c.execute('PRAGMA database_list').fetchall()]
        if ff[0]['db'] in dbs:
          n = self.c.execute('PRAGMA %s.page_count' % ff[0]['db']).fetchone()[0]
          self.c.execute('PRAGMA %s.max_page_count=%d' % (ff[0]['db'], max(n, 1) + ff[0].get('pages', 0)))
          w.full_applied = True
      except sqlite3.Error:
        pass
    return result

  # ---- the interface Logica uses
  def cursor(self):
    return Cursor(self)

  def execute(self, sql, *params):
    if params:
      return self.c.execute(sql, *params)
    desc, rows = self._run_one(sql, fetch=True)
    # the result statement of a run is a query; housekeeping sent through execute()
    # (PRAGMA, DETACH, ...) is an ordinary statement
    self.w.statements[-1].final = bool(QUERY_RE.match(sql))
    return Result(desc, rows)

  def executescript(self, script):
    # sqlite3.Connection.executescript: COMMIT a pending transaction, then run the statements
    # with no implicit transaction control.  Mirrored statement by statement so that faults
    # can land between two statements of one script.
    if self.c.in_transaction:
      self.c.commit()
    old = self.c.isolation_level
    self.c.isolation_level = None
    try:
      for s in split_statements(script):
        self._run_one(s, fetch=False)
    finally:
      try:
        self.c.isolation_level = old
      except sqlite3.Error:
        pass

  def close(self):
    if not self.closed:
      self.closed = True
      self.c.close()

  def commit(self):
    self.c.commit()


class Result(object):
  def __init__(self, description, rows):
    self.description = description
    self._rows = rows

  def fetchall(self):
    return list(self._rows)

  def __iter__(self):
    return iter(self._rows)


class Cursor(object):
  """Stands for a sqlite3.Cursor."""
  arraysize = 1
  rowcount = -1
  lastrowid = None

  def __init__(self, proxy):
    self.p = proxy
    self.r = None
    self._pos = 0

  @property
  def connection(self):
    return self.p

  def executescript(self, script):
    self.p.executescript(script)
    return self

  def execute(self, sql, *params):
    self.r = self.p.execute(sql, *params)
    self._pos = 0
    return self

  def executemany(self, sql, seq):
    self.p.c.executemany(sql, seq)
    return self

  def fetchall(self):
    rows = self.r.fetchall()[self._pos:]
    self._pos += len(rows)
    return rows

  def fetchone(self):
    rows = self.r.fetchall()
    if self._pos < len(rows):
      self._pos += 1
      return rows[self._pos - 1]
    return None

  def fetchmany(self, size=None):
    rows = self.r.fetchall()[self._pos:self._pos + (size or self.arraysize)]
    self._pos += len(rows)
    return rows

  def __iter__(self):
    return iter(self.fetchall())

  def close(self):
    self.r = None

  @property
  def description(self):
    return self.r.description if self.r is not None else None


class Installed(object):
  """Context manager: sqlite3_logica.SqliteConnect -> proxy bound to `world`."""

  def __init__(self, sqlite3_logica, world):
    self.mod = sqlite3_logica
    self.world = world
    self.proxies = []

  def __enter__(self):
    self.orig = self.mod.SqliteConnect
    self.prev_world = CURRENT_WORLD[0]
    CURRENT_WORLD[0] = self.world

    def factory(database=':memory:'):
      p = Proxy(self.world, self.orig, database)
      self.proxies.append(p)
      return p
    self.mod.SqliteConnect = factory
    # no real waiting anywhere: a pause the system takes (a retry loop, say) only advances the
    # run's simulated clock
    import time as _time
    self.real_sleep = _time.sleep
    world = self.world

    def sleep(seconds):
      world.slept += max(0.0, float(seconds))
    _time.sleep = sleep
    return self

  def __exit__(self, *a):
    self.mod.SqliteConnect = self.orig
    CURRENT_WORLD[0] = self.prev_world
    import time as _time
    _time.sleep = self.real_sleep
    self.world.unlock()      # the other client does not outlive the run it disturbs
    exc = a[1] if a else None
    if exc is not None:
      if self.world.retain_connections:
        # whoever caught the exception keeps it (a notebook's sys.last_value, a test harness)
        # and with its frames the failed run's connection; released later by world.release()
        self.world.retained.append(exc)
      else:
        # nobody keeps the exception: the frames of the failed run go, and with them
        # whatever connection only they referred to
        traceback.clear_frames(exc.__traceback__)
    # the harness keeps no connection alive: a connection the system under test has dropped
    # closes now (pending transaction rolled back), one it still holds stays open
    self.proxies = []
    return False


def snapshot_file(path):
  """Durable contents of a database file: {table: sorted rows} ({} if the file is absent)."""
  if not os.path.exists(path):
    return {}
  c = sqlite3.connect(path, timeout=0)
  out = {}
  try:
    names = [n for (n,) in c.execute("SELECT name FROM sqlite_master WHERE type='table' ORDER BY name")]
    for n in names:
      cur = c.execute('SELECT * FROM "%s"' % n)
      cols = [d[0] for d in cur.description]
      out[n] = {'cols': cols, 'rows': sorted([list(r) for r in cur.fetchall()], key=repr)}
  except sqlite3.OperationalError as e:
    if 'locked' in str(e) or 'busy' in str(e):
      return None      # somebody holds the file exclusively: its contents cannot be observed now
    raise
  finally:
    c.close()
  return out


def rows_key(rows):
  return sorted([list(r) for r in rows], key=repr)
