"""Self-tests of the simulator (not a property check):  ./check selftest [--tier quick|thorough]

  determinism  - every engine: the same batches twice in fresh interpreters and once more
                 under another PYTHONHASHSEED must give identical event-log digests
                 (the repaired tree is hash-seed independent, and the harness must be);
  calibration  - the offline-runnable integration_tests/sqlite_* goldens reproduce through
                 the SQLite world (proxy connection);
  sensitivity  - every mutant of lsim/mutants.py applied to a scratch worktree of /repo
                 (never to /repo): the pinned suite must still pass there and the property's
                 check, pointed at the copy, must report a VIOLATION (or, for the mutant
                 marked equivalent, must stay silent).
Environment: LSIM_SELFTEST=determinism,calibration,sensitivity (default: the first two for the
quick tier, all three for thorough); LSIM_MUTANTS=<comma separated ids or property ids>.
Results are written to /verif/selftest_results.json.
"""
import json
import os
import shutil
import subprocess
import sys
import tempfile
import time

from lsim import core
from lsim import runner

ENGINES = ['concsim', 'recsim', 'groundsim', 'aggsim', 'histsim']


def determinism():
  ok = True
  report = {}
  for eng in ENGINES:
    prop = [p for p, e in runner.ENGINE_OF.items() if e == eng][0]
    rows = []
    for batch in (0, 1):
      h1 = core.hash_seed_for(0, prop, batch)
      h2 = (h1 * 7919 + 13) % 4294967296
      ds = []
      for hs in (h1, h1, h2):
        status, res = core.run_child({'engine': eng, 'kind': 'batch', 'seed': 0, 'batch': batch,
                                      'tier': 'quick'}, hs, 1200)
        if status != 'ok':
          print('selftest determinism: %s batch %d failed: %s' % (eng, batch, res))
          ok = False
          ds.append(None)
        else:
          ds.append((res['digests'], res['runs'], len(res['violations'])))
      same = ds[0] is not None and ds[0] == ds[1]
      cross = ds[0] is not None and ds[0] == ds[2]
      rows.append({'batch': batch, 'same_hashseed_twice_equal': same, 'other_hashseed_equal': cross,
                   'digest': ds[0][0][0][:16] if ds[0] else None})
      print('determinism %-9s batch %d: twice=%s other-hashseed=%s' % (eng, batch, same, cross))
      sys.stdout.flush()
      if not (same and cross):
        ok = False
    report[eng] = rows
  return ok, report


def calibration():
  """Offline sqlite goldens through the proxy."""
  code = r'''
import sys, os, glob, io, json
sys.path.insert(0, %r)
from lsim import core, lrun, sqlworld
m = lrun.mods()
os.chdir(core.REPO)
out = {}
for f in sorted(glob.glob('integration_tests/sqlite_*.l')):
  golden = f[:-2] + '.txt'
  if not os.path.exists(golden):
    continue
  text = open(f).read()
  try:
    rules = m.parse.ParseFile(text)['rule']
    p = m.universe.LogicaProgram(rules)
    if p.annotations.Engine() != 'sqlite':
      continue
    sql = p.FormattedPredicateSql('Test')
    e = p.execution
    w = sqlworld.World()
    w.step_budget = 0
    with sqlworld.Installed(m.sqlite3_logica, w):
      with lrun.muted():
        if e.iterations:
          # an iterative plan only runs as a workflow (the script path is a documented TODO)
          got = m.run_in_terminal.Run(f, 'Test', display_mode='silent')
        else:
          got = m.sqlite3_logica.RunSqlScript([e.preamble] + e.defines_and_exports + [e.main_predicate_sql], 'artistictable')
    out[f] = (got == open(golden).read())
  except Exception as ex:
    out[f] = 'ERR %%s: %%s' %% (type(ex).__name__, str(ex)[:80])
print('RESULT ' + json.dumps(out))
''' % core.VERIF
  p = subprocess.run([core.PY, '-c', code], env=core.child_env(0), stdout=subprocess.PIPE,
                     stderr=subprocess.PIPE, text=True, timeout=600)
  line = [l for l in p.stdout.split('\n') if l.startswith('RESULT ')]
  if not line:
    print('calibration failed to run: %s' % p.stderr[-1500:])
    return False, {}
  res = json.loads(line[0][7:])
  good = [f for f, v in res.items() if v is True]
  bad = {f: v for f, v in res.items() if v is not True}
  print('calibration: %d sqlite goldens reproduce through the proxy; %d do not: %s' % (
      len(good), len(bad), json.dumps(bad)[:600]))
  return True, {'reproduced': len(good), 'not_reproduced': bad}


def apply_mutant(wt, m):
  path = os.path.join(wt, m['file'])
  s = open(path).read()
  if s.count(m['old']) != 1:
    return 'old text occurs %d times' % s.count(m['old'])
  open(path, 'w').write(s.replace(m['old'], m['new']))
  return None


def sensitivity(select=None, tier='quick'):
  from lsim import mutants
  results = []
  ok = True
  todo = [m for m in mutants.M
          if not select or m['id'] in select or m['property'] in select]
  for m in todo:
    wt = tempfile.mkdtemp(prefix='lsim-mut-')
    out = tempfile.mkdtemp(prefix='lsim-mutout-')
    os.rmdir(wt)
    t0 = time.time()
    rec = {'id': m['id'], 'property': m['property'], 'note': m['note'], 'expect': m['expect']}
    try:
      subprocess.run(['git', '-C', core.REPO, 'worktree', 'add', '-q', '--detach', wt, 'HEAD'], check=True)
      err = apply_mutant(wt, m)
      if err:
        rec['outcome'] = 'not-applicable: ' + err
        ok = False
      else:
        p = subprocess.run([core.PY, '-m', 'pytest', '-q', '-p', 'no:cacheprovider', '--timeout=900',
                            '--continue-on-collection-errors'], cwd=wt, stdout=subprocess.PIPE,
                           stderr=subprocess.STDOUT, text=True)
        tail = p.stdout.strip().split('\n')[-1]
        rec['suite'] = tail
        suite_ok = '40 passed' in tail
        env = dict(os.environ, LSIM_REPO=wt, LSIM_OUT=out)
        c = subprocess.run([os.path.join(core.VERIF, 'check'), m['property'], '--tier', tier],
                           env=env, stdout=subprocess.PIPE, stderr=subprocess.STDOUT, text=True)
        viol = [l for l in c.stdout.split('\n') if l.startswith('VIOLATION ')]
        first = [l for l in c.stdout.split('\n') if l.startswith('violation class=')]
        rec['exit'] = c.returncode
        rec['first_violation'] = first[0][:300] if first else None
        killed = c.returncode == 1 and bool(viol)
        rec['outcome'] = 'killed' if killed else ('survived' if c.returncode == 0 else 'harness-error')
        rec['suite_still_passes'] = suite_ok
        if c.returncode not in (0, 1):
          rec['output_tail'] = c.stdout[-1500:]
        if m['expect'] == 'killed' and not killed:
          ok = False
        if m['expect'] == 'survives' and killed:
          ok = False
    finally:
      subprocess.run(['git', '-C', core.REPO, 'worktree', 'remove', '--force', wt],
                     stdout=subprocess.DEVNULL, stderr=subprocess.DEVNULL)
      shutil.rmtree(wt, ignore_errors=True)
      shutil.rmtree(out, ignore_errors=True)
    rec['wall_s'] = round(time.time() - t0, 1)
    results.append(rec)
    print('sensitivity %-36s %-4s expect=%-8s -> %-13s suite: %s  (%ss)' % (
        rec['id'], rec['property'], rec['expect'], rec.get('outcome'), rec.get('suite'), rec['wall_s']))
    sys.stdout.flush()
  return ok, results


def main(tier):
  which = os.environ.get('LSIM_SELFTEST')
  if which:
    which = which.split(',')
  else:
    which = ['determinism', 'calibration'] + (['sensitivity'] if tier == 'thorough' else [])
  select = os.environ.get('LSIM_MUTANTS')
  select = set(select.split(',')) if select else None
  os.makedirs(runner.out_dir(), exist_ok=True)
  path = os.path.join(runner.out_dir(), 'selftest_results.json')
  results = {}
  if os.path.exists(path):
    try:
      results = json.load(open(path))
    except ValueError:
      results = {}
  ok = True
  if 'determinism' in which:
    o, results['determinism'] = determinism()
    ok = ok and o
  if 'calibration' in which:
    o, results['calibration'] = calibration()
    ok = ok and o
  if 'sensitivity' in which:
    o, res = sensitivity(select, os.environ.get('LSIM_MUTANT_TIER', 'quick'))
    prev = {r['id']: r for r in results.get('sensitivity', [])}
    for r_ in res:
      prev[r_['id']] = r_
    results['sensitivity'] = [prev[k] for k in sorted(prev)]
    ok = ok and o
  with open(path, 'w') as f:
    json.dump(results, f, indent=1, sort_keys=True)
  print('selftest %s' % ('OK' if ok else 'FAILED'))
  return 0 if ok else 1
