"""Sensitivity catalogue: single-edit mutants of /repo that break a claimed property while
the pinned test suite keeps passing.  Applied only to scratch copies (never to /repo) by
selftest.py; each is a textual replacement whose `old` text must occur exactly once.
"""

M = []


def mutant(mid, prop, path, old, new, note, expect='killed'):
  M.append({'id': mid, 'property': prop, 'file': path, 'old': old, 'new': new, 'note': note,
            'expect': expect})


CL = 'common/concertina_lib.py'
SQ = 'common/sqlite3_logica.py'
UN = 'compiler/universe.py'
FU = 'compiler/functors.py'
RL = 'compiler/dialect_libraries/recursion_library.py'
PA = 'parser_py/parse.py'
DI = 'compiler/dialects.py'
INF = 'type_inference/research/infer.py'
CPP = 'parser_cpp/logica_parse.cpp'

# ------------------------------------------------------------------ C14
mutant('c14-rep-gt', 'C14', CL,
       "    if (self.action_iterations_complete[one_action] >=\n",
       "    if (self.action_iterations_complete[one_action] >\n",
       'one repetition too many')
mutant('c14-requeue-end', 'C14', CL,
       "      self.actions_to_run[i:i] = [one_action]\n",
       "      self.actions_to_run.append(one_action)\n",
       're-queue at the end of the whole queue instead of after the iteration block')
mutant('c14-signal-content', 'C14', CL,
       "      if s:\n        self.wrench_in_gears |= {signal}\n",
       "      if True:\n        self.wrench_in_gears |= {signal}\n",
       'an empty stop file counts as raised')
mutant('c14-wrench-forgotten', 'C14', CL,
       "      if s:\n        self.wrench_in_gears |= {signal}\n        return True\n",
       "      if s:\n        return True\n",
       'signal seen by one member is not remembered for the others')
mutant('c14-requires-ignored', 'C14', CL,
       "        if complete >= set(self.action_requires[a]):\n",
       "        if complete >= set(self.action_requires[a]) or len(result) % 7 == 5:\n",
       'dependency test skipped at some queue positions')
mutant('c14-half-fix-reverted', 'C14', CL,
       "      for predicate in members:\n        if predicate in self.action:\n          self.action_requires[predicate] |= external\n",
       "      for predicate in members:\n        pass\n",
       'external inputs of the lower half not awaited (the repaired defect)')
mutant('c14-engine-error-swallowed', 'C14', CL,
       "    self.engine.Run(self.action[one_action].get('action', {}))\n    self.running_actions -= {one_action}\n",
       "    try:\n      self.engine.Run(self.action[one_action].get('action', {}))\n    except Exception:\n      pass\n    self.running_actions -= {one_action}\n",
       'engine failure swallowed, execution continues')
mutant('c14-rename-misses-edge', 'C14', CL,
       "  for a, b in dependency_edges:\n    if a == from_name:\n      a = to_name\n    if b == from_name:\n      b = to_name\n",
       "  for a, b in dependency_edges:\n    if a == from_name:\n      a = to_name\n",
       'renaming of a final+intermediate predicate misses the target side of edges')
mutant('c14-stop-check-first-only', 'C14', CL,
       "    elif self.ActionIterationWantsToStopBySignal(one_action):\n",
       "    elif (one_action == self.iteration_actions[self.action_iteration[one_action]][0] and\n          self.ActionIterationWantsToStopBySignal(one_action)):\n",
       'only the first member of an iteration looks at the stop signal')

# ------------------------------------------------------------------ C03
mutant('c03-vertical-depth-minus-one', 'C03', RL,
       "  for i in range(depth):\n      result_lines.append(\n",
       "  for i in range(depth - 1):\n      result_lines.append(\n",
       'vertical unfolding one level short (P := P_r{depth} then refers to a missing level or one less)',
       expect='any')
mutant('c03-repetitions-formula', 'C03', RL,
       "repetitions: {(depth + 1 - ignition_steps) // 2 + 1}{maybe_stop});'",
       "repetitions: {(depth + 1 - ignition_steps) // 2}{maybe_stop});'",
       'iterative plan repeats once too few (two generations short)')
mutant('c03-parity-adjust-removed', 'C03', FU,
       "        if ignition % 2 == depth % 2:\n          ignition += 1\n",
       "        if False:\n          ignition += 1\n",
       'ignition length not adjusted to the parity of the depth')
mutant('c03-flat-depth-off', 'C03', RL,
       "    rule = f'{p} := {p}_fr{depth}();'\n",
       "    rule = f'{p} := {p}_fr{depth - 1}();' if depth > 12 else f'{p} := {p}_fr{depth}();'\n",
       'flat unfolding returns the previous generation for depth > 12')
mutant('c03-shallow-iterative-fix-reverted', 'C03', FU,
       "          iterative=(style=='iterative_horizontal' and\n                     depth + 1 >= ignition_steps),\n",
       "          iterative=(style=='iterative_horizontal'),\n",
       'explicitly iterative recursion shallower than the ignition (the repaired defect)')
mutant('c03-ground-alias-wrong', 'C03', RL,
       "          f'@Ground({p}_ifr{i}, {p}_ifr{i - 2}{maybe_copy_to_file});')\n",
       "          f'@Ground({p}_ifr{i}, {p}_ifr{i - 1}{maybe_copy_to_file});')\n",
       'lower generation grounded onto the wrong table')
mutant('c03-concertina-rep', 'C03', CL,
       "    if (self.action_iterations_complete[one_action] >=\n",
       "    if (self.action_iterations_complete[one_action] >\n",
       'executor repeats the iteration once more than declared')
mutant('c03-final-reads-stale-generation', 'C03', RL,
       "    rule = f'{p} := {p}_ifr{ignition_steps - 1}();'\n",
       "    rule = f'{p} := {p}_ifr{ignition_steps - 3}();'\n",
       'result taken from the upper iterated generation instead of the final step')

mutant('c03-functor-partial-iteration', 'C03', FU,
       "    for sibling in self.IterationSiblings(covered):\n",
       "    for sibling in []:\n",
       'a functor copies only the members of an iteration that the applicant reads (the repaired defect)')
# ------------------------------------------------------------------ C13
mutant('c13-closure-set-order', 'C13', UN,
       "          for d in iteration['predicates']:\n",
       "          for d in iteration_predicates:\n",
       'iteration closure walks a set (the repaired defect)')
mutant('c13-toomuch-sticky', 'C13', PA,
       "  else:\n    # The incantation works for the program that contains it, not for\n    # whatever is parsed by the same process afterwards.\n    TOO_MUCH = 'too much'\n",
       "",
       'experimental syntax switch never switched off (the repaired defect)')
mutant('c13-toomuch-sticky-cpp', 'C13', CPP,
       "  } else {\n    // The incantation works for the program that contains it, not for\n    // whatever is parsed by the same process afterwards.\n    TOO_MUCH = \"too much\";\n  }\n",
       "  }\n",
       'C++ parser: experimental syntax switch never switched off (the repaired defect)')
mutant('c13-cover-order', 'C13', FU,
       "    for p in self.rules_of:\n      args = self.args_of.get(p, ())\n",
       "    for p, args in self.args_of.items():\n",
       'recursive components analysed in the order of a dict filled in set order (the repaired defect)')
mutant('c13-semigroup-order', 'C13', UN,
       "    needed_udfs = list(sorted(needed_semigroups)) + needed_udfs\n",
       "    needed_udfs = list(needed_semigroups) + needed_udfs\n",
       'semigroup definitions emitted in set order (the repaired defect)')
mutant('c13-prefix-order', 'C13', PA,
       "    for p in sorted(DefinedPredicates(rules) | MadePredicates(rules),\n                    key=lambda p: (-len(p), p)):\n",
       "    for p in DefinedPredicates(rules) | MadePredicates(rules):\n",
       'import prefixing in set order (the repaired defect)')
mutant('c13-type-order', 'C13', INF,
       "                         for k in sorted(definitions, key=lambda k: (len(k), k))]\n",
       "                         for k in sorted(definitions, key=len)]\n",
       'record type definitions tie-broken by encounter order (repaired defect 4). Since repair 7 every '
       'FormattedPredicateSql starts from the same program-wide definitions, so the encounter order is the '
       'same with and without history: reverting this tie-break alone is masked (it was killed before repair 7)',
       expect='any')
mutant('c13-type-leak', 'C13', UN,
       "    self.required_type_definitions = dict(self.program_type_definitions)\n    self.typing_preamble = self.program_typing_preamble\n",
       "",
       'types of an earlier predicate leak into the next preamble (the repaired defect)')
mutant('c13-functors-no-deepcopy', 'C13', FU,
       "    new_rules = copy.deepcopy(self.rules)\n    for p, style in should_recurse.items():\n",
       "    new_rules = self.rules\n    for p, style in should_recurse.items():\n",
       'recursion unfolding mutates the caller-owned rules; the unfolding happens to be idempotent (a second '
       'compile of the already unfolded rules emits the same SQL), so this may be output-equivalent', expect='any')
mutant('c13-sql-cache-by-name', 'C13', UN,
       "  def FormattedPredicateSql(self, name, allocator=None):\n    \"\"\"Printing top-level formatted SQL statement with defines and exports.\"\"\"\n",
       "  _SQL_CACHE = {}\n\n  def FormattedPredicateSql(self, name, allocator=None):\n    \"\"\"Printing top-level formatted SQL statement with defines and exports.\"\"\"\n    key = (name, len(self.rules))\n    if key in LogicaProgram._SQL_CACHE and allocator is None:\n      self.InitializeExecution(name)\n      return LogicaProgram._SQL_CACHE[key]\n    LogicaProgram._SQL_CACHE[key] = self._FormattedPredicateSql(name, allocator)\n    return LogicaProgram._SQL_CACHE[key]\n\n  def _FormattedPredicateSql(self, name, allocator=None):\n    \"\"\"Printing top-level formatted SQL statement with defines and exports.\"\"\"\n",
       'class-level SQL cache keyed by (predicate name, number of rules) only')
mutant('c13-timestamp-leak', 'C13', UN,
       "    self.execution.preamble = self.annotations.Preamble()\n",
       "    self.execution.preamble = self.annotations.Preamble()\n    if len(main_predicate) > 12:\n      import time as _t\n      self.execution.preamble += '-- compiled at %d\\n' % _t.time()\n",
       'real wall clock leaks into the preamble for long predicate names', expect='any')

# ------------------------------------------------------------------ C17
mutant('c17-no-drop', 'C17', UN,
       "          'DROP TABLE IF EXISTS %s%s;\\n' % ((\n",
       "          '-- DROP TABLE IF EXISTS %s%s;\\n' % ((\n",
       'no DROP before CREATE: the second run against the same file fails')
mutant('c17-export-after-define', 'C17', UN,
       "    if export_statement:\n      self.execution.defines_and_exports.append(export_statement)\n    self.execution.defines_and_exports.append(define_statement)\n",
       "    self.execution.defines_and_exports.append(define_statement)\n    if export_statement:\n      self.execution.defines_and_exports.insert(0, export_statement)\n",
       'export statements emitted in reverse dependency order: first run fails, later runs read stale tables')
mutant('c17-drop-only-if-many-rows', 'C17', UN,
       "      export_statement = self.program.UseFlagsAsParameters(export_statement)\n",
       "      if len(self.execution.export_statements) >= 2:\n        export_statement = export_statement.replace('DROP TABLE IF EXISTS', '-- DROP TABLE IF EXISTS', 1)\n      export_statement = self.program.UseFlagsAsParameters(export_statement)\n",
       'third and later grounded tables are created without DROP')

# ------------------------------------------------------------------ C20
mutant('c20-argmin-heap-direction', 'C20', SQ,
       "      if self.result[0][0] > value:\n        heapq._heapreplace_max(self.result, (value, arg))\n",
       "      if self.result[0][0] < value:\n        heapq._heapreplace_max(self.result, (value, arg))\n",
       'ArgMin keeps the largest instead of the smallest once the heap is full')
mutant('c20-argmax-limit-boundary', 'C20', SQ,
       "    elif len(self.result) == limit - 1:\n      self.result.append((value, arg))\n      heapq.heapify(self.result)\n",
       "    elif len(self.result) == limit - 1:\n      heapq.heapify(self.result)\n      self.result.append((value, arg))\n",
       'ArgMax heapifies before inserting the limit-th element')
mutant('c20-argmax-finalize-order', 'C20', SQ,
       "      return json.dumps([x[1] for x in reversed(sorted(self.result))])\n",
       "      return json.dumps([x[1] for x in sorted(self.result)])\n",
       'ArgMaxK returns ascending order')
mutant('c20-argmin-class-level-state', 'C20', SQ,
       "class ArgMin:\n  \"\"\"ArgMin user defined aggregate function.\"\"\"\n  def __init__(self):\n      self.result = []\n",
       "class ArgMin:\n  \"\"\"ArgMin user defined aggregate function.\"\"\"\n  result = []\n  def __init__(self):\n      del self.result[:]\n",
       'ArgMin state shared between groups alive at once')
mutant('c20-set-as-list', 'C20', SQ,
       "  def step(self, element):\n    self.result.add(element)\n",
       "  def step(self, element):\n    if len(self.result) < 4 or element not in self.result:\n      self.result = set(self.result) if isinstance(self.result, set) else self.result\n      self.result.add(element)\n",
       'no-op rewrite (equivalent mutant: must NOT be killed)', expect='survives')
mutant('c20-arrayconcat-none', 'C20', SQ,
       "    if a is None:\n      return\n    self.result.extend(LoadJson(a))\n",
       "    if a is None:\n      self.result = []\n      return\n    self.result.extend(LoadJson(a))\n",
       'a null in ArrayConcatAgg resets what was concatenated so far')
mutant('c20-range-bound', 'C20', DI,
       "                  'select n from t) where n < {0})'),\n",
       "                  'select n from t) where n <= {0} - 1 or {0} = 0)'),\n",
       'Range(0) returns [0] instead of []')
mutant('c20-least-greatest', 'C20', DI,
       "        'Least': 'MIN(%s)',\n        'Greatest': 'MAX(%s)',\n",
       "        'Least': 'MIN(%s)',\n        'Greatest': 'MIN(%s)',\n",
       'Greatest computes the minimum')
mutant('c20-count-not-distinct', 'C20', DI,
       "        'Count': 'COUNT(DISTINCT {0})',\n        'StringAgg': 'GROUP_CONCAT(%s)',\n",
       "        'Count': 'COUNT({0})',\n        'StringAgg': 'GROUP_CONCAT(%s)',\n",
       'Count counts duplicates')
mutant('c20-argmin-tail-drop', 'C20', SQ,
       "    return json.dumps([x[1] for x in sorted(self.result)])\n\n\nclass TakeFirst:",
       "    r = [x[1] for x in sorted(self.result)]\n    return json.dumps(r[:7] if len(r) > 8 else r)\n\n\nclass TakeFirst:",
       'ArgMin/Array truncates results longer than 8')
