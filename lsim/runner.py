"""Parent side of a check: schedules batches, merges, minimises, replays, writes evidence."""
import concurrent.futures
import importlib
import json
import os
import shutil
import sys
import tempfile
import time

from lsim import core

ENGINE_OF = {'C03': 'recsim', 'C13': 'histsim', 'C14': 'concsim',
             'C17': 'groundsim', 'C20': 'aggsim'}

KNOWN_PATH = os.path.join(core.VERIF, 'known_findings.json')


def out_dir():
  """Where evidence and replay files go: /verif, or $LSIM_OUT when checks are pointed at a
  scratch copy of the repository (self-tests), so that real evidence is never overwritten."""
  return os.environ.get('LSIM_OUT') or core.VERIF


def load_known(prop):
  if not os.path.exists(KNOWN_PATH):
    return []
  with open(KNOWN_PATH) as f:
    data = json.load(f)
  return [k for k in data.get('findings', [])
          if k['property'] == prop and k.get('status') == 'known']


def matches_known(v, known):
  for k in known:
    if k['class'] == v['class'] and k['key'] == v.get('key'):
      return k
  return None


def workers():
  try:
    n = int(os.environ.get('LSIM_WORKERS', '0'))
  except ValueError:
    n = 0
  return n or min(16, os.cpu_count() or 4)


def run_batches(engine_name, seed, tier, plan, prop):
  merged = core.Summary()
  failures = []
  results = {}
  nb = plan['batches']
  deadline = plan.get('wall_budget_s')
  t0 = time.time()

  def one(b):
    if deadline and time.time() - t0 > deadline:
      return b, 'skipped', None
    hs = core.hash_seed_for(seed, prop, b)
    status, res = core.run_child(
        {'engine': engine_name, 'kind': 'batch', 'seed': seed, 'batch': b, 'tier': tier},
        hs, plan.get('timeout', 600))
    return b, status, res

  with concurrent.futures.ThreadPoolExecutor(max_workers=workers()) as ex:
    for b, status, res in ex.map(one, range(nb)):
      results[b] = (status, res)
  skipped = 0
  for b in range(nb):
    status, res = results[b]
    if status == 'ok':
      merged.merge_json(res)
    elif status == 'skipped':
      skipped += 1
    else:
      failures.append((b, status, res))
  return merged, failures, skipped


def confirm_and_write(engine_name, prop, seed, candidates, tier):
  """Minimises, re-executes in a fresh interpreter, writes the replay file.

  `candidates`: violations of one (class, key), in batch order.  The minimiser runs many
  candidates in ONE child process; if the system under test keeps state between cases (a
  process-level cache, say) the minimised case may only fail in that polluted process.  So a
  minimised case that does not reproduce in a fresh interpreter is dropped in favour of the
  original, unminimised case, and then of the next occurrence of the same violation.
  Returns (path, violation) or (None, reason)."""
  budget = 60 if tier == 'quick' else 240
  reason = 'no candidate'
  engine = importlib.import_module('lsim.' + engine_name)
  if hasattr(engine, 'replay_priority'):
    # cases that carry their own history (a process-level prelude) reproduce alone; cases that
    # only failed because of what ran before them in the batch's process do not
    candidates = sorted(candidates, key=lambda v: engine.replay_priority(v['case']))
  for v in candidates[:4]:
    hs = v['case'].get('hashseed', 0)
    viol = {k: v[k] for k in ('class', 'key', 'message') if k in v}
    attempts = []
    status, res = core.run_child(
        {'engine': engine_name, 'kind': 'minimise', 'case': v['case'], 'violation': viol,
         'budget_s': budget}, hs, budget + 240)
    if status == 'ok':
      attempts.append((res['case'], res['violation'],
                       {k: res[k] for k in ('tried', 'accepted', 'size_before', 'size_after')}))
    attempts.append((v['case'], viol, None))
    for case, want, mini in attempts:
      status, res = core.run_child(
          {'engine': engine_name, 'kind': 'replay', 'case': case}, hs, 600)
      if status != 'ok':
        reason = 'replay child failed: %s' % (res,)
        continue
      hits = [x for x in res['violations']
              if x['class'] == want['class'] and x.get('key') == want.get('key')]
      if not hits:
        reason = 'violation did not reproduce in a fresh interpreter'
        continue
      d = os.path.join(out_dir(), 'replays', prop)
      os.makedirs(d, exist_ok=True)
      replay = {'property': prop, 'engine': engine_name, 'seed': seed, 'hashseed': hs,
                'case': case, 'violation': hits[0], 'minimisation': mini}
      path = os.path.join(d, '%d-%s.json' % (seed, core.digest(replay)[:8]))
      with open(path, 'w') as f:
        json.dump(replay, f, indent=1, sort_keys=True)
      return path, hits[0]
  return None, reason


def replay_file(path):
  with open(path) as f:
    rp = json.load(f)
  prop = rp['property']
  status, res = core.run_child(
      {'engine': rp['engine'], 'kind': 'replay', 'case': rp['case']}, rp['hashseed'], 600)
  if status != 'ok':
    print('HARNESS-ERROR replay child: %s' % (res,))
    return core.HARNESS_ERROR
  want = rp['violation']
  hits = [x for x in res['violations']
          if x['class'] == want['class'] and x.get('key') == want.get('key')]
  for x in res['violations']:
    print('replayed: class=%s key=%s %s' % (x['class'], x.get('key'), x['message']))
  if hits:
    same_msg = hits[0]['message'] == want['message']
    print('message identical to recorded: %s' % same_msg)
    print('VIOLATION property=%s replay=%s' % (prop, path))
    return 1
  print('replay of %s did not violate %s' % (path, prop))
  return 0


def write_evidence(prop, tier, seed, engine, merged, wall, failures, skipped,
                   n_viol, known_lines, plan):
  meta = engine.evidence_meta(tier)
  runs = merged.runs
  coverage = {
      'evaluations': runs,
      'distinct_nontrivial': len(merged.nontrivial),
      'rule': meta['rule'],
      'samples': merged.samples[:6],
      'runs_per_hour': int(runs / wall * 3600) if wall > 0 else 0,
      'batches_planned': plan['batches'],
      'batches_skipped_by_wall_budget': skipped,
      'batches_failed': len(failures),
      'workers': workers(),
      'seeds': {'VERIF_SEED': seed,
                'derivation': 'sha256(seed, property, batch, run, purpose); one PYTHONHASHSEED per batch from the same derivation'},
      'simulated_time': {'value': merged.sim_time, 'unit': meta.get('sim_time_unit', 's')},
      'faults_configured': dict(sorted(merged.faults_configured.items())),
      'faults_fired': dict(sorted(merged.faults_fired.items())),
      'probes': dict(sorted(merged.probes.items())),
      'probes_at_zero': sorted(p for p in meta.get('expected_probes', [])
                               if not merged.probes.get(p)),
      'workload_classes': dict(sorted(merged.counters.items())),
      'distinct_states': {'count': len(merged.states), 'measure': meta['states_measure']},
      'components': meta['components'],
      'batch_digests_sha256': core.digest(merged.digests),
      'batch_digests_first': merged.digests[:4],
      'known_findings_reported': known_lines,
      'exhaustive': False,
  }
  for k, val in meta.get('extra', {}).items():
    coverage[k] = val
  ev = {'property_id': prop, 'tier': tier, 'seed': seed, 'level': 'exploration',
        'coverage': coverage, 'assumptions': meta['assumptions'],
        'wall_s': round(wall, 2), 'violations': n_viol}
  d = os.path.join(out_dir(), 'evidence')
  os.makedirs(d, exist_ok=True)
  with open(os.path.join(d, prop + '.json'), 'w') as f:
    json.dump(ev, f, indent=1, sort_keys=True)


def run_check(prop, tier, seed):
  engine_name = ENGINE_OF[prop]
  engine = importlib.import_module('lsim.' + engine_name)
  plan = engine.plan(tier)
  t = core.Timer()
  print('check %s engine=%s tier=%s VERIF_SEED=%d batches=%d repo=%s' % (
      prop, engine_name, tier, seed, plan['batches'], core.REPO))
  sys.stdout.flush()
  shared = None
  if hasattr(engine, 'prepare'):
    # a directory shared by all children of this check run (made and removed here)
    shared = tempfile.mkdtemp(prefix='lsim-shared-')
    os.environ['LSIM_SHARED'] = shared
    why = engine.prepare(shared, tier)
    if why:
      print('note: %s' % why)
  try:
    return _run_check(prop, tier, seed, engine_name, engine, plan, t)
  finally:
    if shared:
      os.environ.pop('LSIM_SHARED', None)
      shutil.rmtree(shared, ignore_errors=True)


def _run_check(prop, tier, seed, engine_name, engine, plan, t):
  merged, failures, skipped = run_batches(engine_name, seed, tier, plan, prop)
  known = load_known(prop)
  known_hit = {}
  fresh = {}
  for v in merged.violations:
    k = matches_known(v, known)
    if k is not None:
      known_hit.setdefault((k['class'], k['key']), (k, v))
    else:
      fresh.setdefault((v['class'], v.get('key')), []).append(v)
  known_lines = []
  for (_, _), (k, v) in sorted(known_hit.items()):
    line = 'KNOWN-FINDING: property=%s %s' % (prop, k['what'])
    known_lines.append(line)
    print(line)
  exit_code = 0
  reported = 0
  nonrepro = []
  for key in sorted(fresh, key=repr)[:3]:
    path, info = confirm_and_write(engine_name, prop, seed, fresh[key], tier)
    if path is None:
      nonrepro.append((key, info))
      print('HARNESS-NONREPRODUCIBLE property=%s class=%s key=%s: %s' % (
          prop, key[0], key[1], info))
      continue
    reported += 1
    print('violation class=%s key=%s: %s' % (info['class'], info.get('key'), info['message']))
    print('VIOLATION property=%s replay=%s' % (prop, path))
    exit_code = 1
  if len(fresh) > 3:
    print('(%d further distinct violation classes not minimised)' % (len(fresh) - 3))
  wall = t.elapsed()
  write_evidence(prop, tier, seed, engine, merged, wall, failures, skipped,
                 len(fresh), known_lines, plan)
  for b, status, res in failures[:5]:
    print('HARNESS-ERROR batch %d %s: %s' % (b, status, json.dumps(res)[:3000]))
  print('%s: %d runs, %d distinct non-trivial, %d distinct states, faults fired %d, %.1fs' % (
      prop, merged.runs, len(merged.nontrivial), len(merged.states),
      sum(merged.faults_fired.values()), wall))
  if exit_code == 0 and (failures or nonrepro):
    return core.HARNESS_ERROR
  if exit_code == 0 and merged.runs == 0:
    print('HARNESS-ERROR no runs executed')
    return core.HARNESS_ERROR
  return exit_code


def main(argv):
  import argparse
  ap = argparse.ArgumentParser(prog='check')
  ap.add_argument('property')
  ap.add_argument('--tier', default=os.environ.get('VERIF_TIER', 'quick'),
                  choices=['quick', 'thorough'])
  ap.add_argument('--seed', type=int, default=None)
  ap.add_argument('--replay', default=None)
  a = ap.parse_args(argv)
  if a.property == 'selftest':
    from lsim import selftest
    return selftest.main(a.tier)
  if a.replay:
    return replay_file(a.replay)
  seed = a.seed
  if seed is None:
    try:
      seed = int(os.environ.get('VERIF_SEED', '0'))
    except ValueError:
      seed = 0
  return run_check(a.property, a.tier, seed)
