"""C03 - recursion is the bounded iteration, and the least fixpoint once it converges.

For depth > 20 (or `iterative: true`) a recursive predicate is not a query but a
process: ignition statements, an @Iteration block re-executed by Concertina over two
alternating generations of *_ifrN tables, a final step.  This engine runs generated
recursive programs through the real parser/compiler/executor/SQLite under several
*schedules of execution* (fresh database, database holding the generations of a
previous run of another version or depth, a run killed or failed at a seeded
statement followed by a clean re-run, several predicates requested at once) and
compares with the reference evaluator: T^(depth+1)(empty) and the least fixpoint.
Depth <= 20 compiles to one statement; those cases ride on the same oracle with no
fault dimension (said so in the manifest).
"""
import collections
import copy
import os

from lsim import core
from lsim import gen
from lsim import ref
from lsim import lrun
from lsim import sqlworld
from lsim import minimise

PROPERTY = 'C03'
Counter = collections.Counter


# ------------------------------------------------------------------ workload

def gen_case(r, hashseed):
  depth = r.choice(gen.DEPTHS)
  program, family, main = gen.gen_recursive(r, depth)
  iterative_forced = False
  if program['recursive'] and r.random() < 0.12:
    name = sorted(program['recursive'])[0]
    d = program['recursive'][name]
    if isinstance(d, int) and d <= 20:
      program['recursive'][name] = {'depth': d, 'iterative': True}
      iterative_forced = True
  has_functor = False
  if r.random() < 0.2:
    has_functor = gen.add_functor(r, program, main)
  idb = gen.idb_names(program)
  if r.random() < 0.2:
    # annotations on members of the recursive component or on its dependants: they are rewritten
    # during unfolding and must not change the number of applications
    program['ground'] = sorted(set(r.sample(idb, min(len(idb), r.choice([1, 1, 2])))))
  k = r.choice([1, 1, 2, 3, len(idb)])
  requested = r.sample(idb, min(k, len(idb)))
  if main not in requested and r.random() < 0.7:
    requested[0] = main
  if has_functor and r.random() < 0.6:
    fname = program['functors'][0]['name']
    if fname not in requested:
      requested.append(fname)
  d_eff = effective_depth(program)
  deep = d_eff > 20 or iterative_forced
  db = r.choice(['memory', 'file', 'file']) if deep else r.choice(['memory', 'memory', 'file'])
  schedule = 'fresh'
  if db == 'file':
    schedule = r.choice(['fresh', 'stale', 'stale', 'fault_rerun', 'fault_rerun'] if deep
                        else ['fresh', 'stale', 'fault_rerun'])
  path = 'concertina'
  if not deep and len(requested) == 1 and r.random() < 0.35:
    path = 'script'
  case = {'hashseed': hashseed, 'program': program, 'family': family, 'main': main,
          'requested': requested, 'db': db, 'schedule': schedule, 'path': path,
          'stale_program': None, 'faults': []}
  if schedule == 'stale':
    case['stale_program'] = stale_variant(r, program)
  if schedule == 'fault_rerun':
    case['faults'] = [gen_fault(r, deep)]
  return case


def effective_depth(program):
  ds = []
  for v in program['recursive'].values():
    ds.append(v['depth'] if isinstance(v, dict) else v)
  return max(ds) if ds else 8


def stale_variant(r, program):
  """An earlier version of the program whose tables are left in the database file:
  other depth (other parity => other ignition length), and/or other facts."""
  p = copy.deepcopy(program)
  how = r.choice(['depth', 'depth', 'facts', 'both'])
  if how in ('depth', 'both') and p['recursive']:
    name = sorted(p['recursive'])[0]
    d = p['recursive'][name]
    dd = d['depth'] if isinstance(d, dict) else d
    nd = max(1, dd + r.choice([-1, 1, 1, 2, 3, 10]))
    if isinstance(d, dict):
      d['depth'] = nd
    else:
      p['recursive'][name] = nd
  if how in ('facts', 'both') or not p['recursive']:
    for q in p['preds']:
      if q['kind'] == 'edb':
        q['rows'] = [[v + r.choice([0, 0, 1, 7]) for v in row] for row in q['rows']]
        q['rows'].append([r.randint(0, 30) for _ in range(q['arity'])])
    for q in p['preds']:
      if q['kind'] != 'edb':
        for ru in q['rules']:
          if not ru['atoms'] and ru['head'] and ru['head'][0][0] == 'c' and r.random() < 0.5:
            ru['head'][0] = ['c', ru['head'][0][1] + r.choice([1, 3])]
  return p


def gen_fault(r, deep):
  kind = r.choice(['abort', 'abort', 'interrupt', 'full', 'busy'])
  at = r.randint(2, 60 if deep else 6)
  f = {'kind': kind, 'at': at}
  if kind == 'interrupt':
    f['steps'] = r.choice([1, 2, 5, 20, 100])
  if kind == 'full':
    f = {'kind': 'full', 'db': 'logica_home', 'pages': r.choice([0, 1, 2, 3])}
  if kind == 'busy':
    f['hold'] = r.choice([1, 1, 2, 3, 4, 6, 100])
  return f


# ------------------------------------------------------------------ execution

class ProvenEmpty(Exception):
  """The compiler rejected the program: a predicate was proven to be empty."""

  def __init__(self, predicate, message):
    Exception.__init__(self, message)
    self.predicate = predicate

def with_db(program, dbpath):
  p = dict(program)
  p['attach'] = dbpath
  return p


def run_program(program, requested, path, dbpath, faults):
  """Compiles and executes; returns (results or None, world, exception or None, compiled)."""
  prog = with_db(program, dbpath) if dbpath else program
  text = gen.render(prog)
  try:
    comp = lrun.compiled(text, requested)
  except lrun.mods().functors.FunctorError as e:
    raise ProvenEmpty(getattr(e, 'functor_name', None), str(getattr(e, 'message', e)))
  except lrun.mods().rule_translate.RuleCompileException as e:
    # a diagnostic is not an answer (e.g. @Ground on a member of an iterative component is rejected)
    raise sqlworld.TooExpensive('compiler diagnostic: %s' % str(e)[:80])
  except (RecursionError, MemoryError):
    # interpreter resource limits are outside the property: discard and count
    raise sqlworld.TooExpensive('compiler exhausted the interpreter recursion/memory limit')
  faults = [dict(f, file=dbpath) if f['kind'] == 'busy' else f for f in faults]
  world = sqlworld.World(faults)
  try:
    if path == 'script':
      _, last = lrun.run_script(world, comp, requested[0])
      res = {requested[0]: last.result}
    else:
      res = lrun.run_concertina(world, comp, requested)
  except sqlworld.TooExpensive:
    raise
  except Exception as e:     # injected abort or a real engine error
    return None, world, e, comp
  return res, world, None, comp


def component_styles(program, comp):
  program = ref.expand_functors(program)
  copy_of = program.get('copy_of') or {}
  comps, graph = ref.sccs(program['preds'])
  out = {}
  for c in comps:
    if len(c) > 1 or c[0] in graph[c[0]]:
      style = None
      for n in c:
        # a functor copy is a copy of the unfolded predicates: same style as its original
        s = comp.unfolding_style(copy_of.get(n, n))
        if s == 'iterative':
          style = s
        elif s == 'flat' and style != 'iterative':
          style = s
        elif s == 'vertical' and style is None:
          style = s
      out[tuple(c)] = style
  return out


def expectation(program, R, comp):
  """name -> ('exact', bag) or ('between', lower_set, upper_set or None) or ('skip', why)."""
  styles = component_styles(program, comp)
  program = ref.expand_functors(program)
  by = {p['name']: p for p in program['preds']}
  inexact = set()    # predicates whose value is only bounded
  nonmono = ref.nonmonotone(program['preds'])
  unbounded_ok = {}
  comps, graph = ref.sccs(program['preds'])
  status = {}
  for c in comps:
    rec = len(c) > 1 or c[0] in graph[c[0]]
    ups = set()
    for n in c:
      ups |= {q for q in ref.deps(by[n]) if q not in c}
    upstream_inexact = any(status.get(q) != 'exact' for q in ups if q in status)
    if rec and len(c) > 1 and styles.get(tuple(c)) == 'vertical':
      mine = 'between'
    elif upstream_inexact:
      mine = 'between'
    else:
      mine = 'exact'
    for n in c:
      if mine == 'between' and (set(c) | ups) & nonmono:
        # containment between T^(d+1) and the least fixpoint is stated for monotone programs only
        status[n] = 'skip'
      elif mine == 'between' and by[n]['kind'] == 'agg':
        status[n] = 'skip'
      elif mine == 'between' and any(status.get(q) == 'skip' for q in ups):
        status[n] = 'skip'
      else:
        status[n] = mine
  exp = {}
  for n, s in status.items():
    if by[n]['kind'] == 'edb':
      continue
    if s == 'exact':
      exp[n] = ('exact', R.rel[n])
    elif s == 'between':
      exp[n] = ('between', set(R.rel[n]), set(R.fix[n]) if R.fix.get(n) is not None else None)
    else:
      exp[n] = ('skip', 'non-monotone predicate over a vertically unfolded mutual recursion')
  return exp, styles


def check_results(program, R, comp, requested, res):
  vs = []
  by = {p['name']: p for p in ref.expand_functors(program)['preds']}
  exp, styles = expectation(program, R, comp)
  checked = Counter()
  for n in requested:
    if res.get(n) is None:
      vs.append({'class': 'missing-result', 'key': n, 'message': 'no result returned for %s' % n})
      continue
    hdr, rows = res[n]
    got = Counter(tuple(x) for x in rows)
    want_hdr = ref.header(by[n])
    if list(hdr) != want_hdr:
      vs.append({'class': 'header', 'key': 'header',
                 'message': '%s: columns %s, documented %s' % (n, hdr, want_hdr)})
    e = exp[n]
    checked[e[0]] += 1
    if e[0] == 'exact':
      if got != e[1]:
        missing = sorted((e[1] - got).items())[:5]
        extra = sorted((got - e[1]).items())[:5]
        d = effective_depth(program)
        vs.append({'class': 'not-T^(d+1)', 'key': key_for(program, styles, comp),
                   'message': '%s differs from T^(depth+1)(empty), depth %d, styles %s: missing %s, extra %s' % (
                       n, d, sorted(set(styles.values()), key=str), missing, extra)})
    elif e[0] == 'between':
      gs = set(got)
      if not e[1] <= gs:
        vs.append({'class': 'below-T^(d+1)', 'key': key_for(program, styles, comp),
                   'message': '%s lacks rows derivable within the bound: %s' % (n, sorted(e[1] - gs)[:6])})
      if e[2] is not None and not gs <= e[2]:
        vs.append({'class': 'outside-lfp', 'key': key_for(program, styles, comp),
                   'message': '%s has rows outside the least fixpoint: %s' % (n, sorted(gs - e[2])[:6])})
      if by[n]['kind'] == 'distinct' and any(m != 1 for m in got.values()):
        vs.append({'class': 'distinct-multiplicity', 'key': 'dup',
                   'message': '%s is distinct but returned duplicate rows' % n})
  return vs, checked, styles


def key_for(program, styles, comp):
  """Fingerprint of the situation, specific enough to tell findings apart."""
  import re
  ss = '+'.join(sorted(set(str(s) for s in styles.values())))
  ks = [int(m.group(1)) for n in comp.rule_names for m in [re.search(r'_ifr(\d+)$', n)] if m]
  if ks:
    ignition = max(ks) + 1
    for name, v in program['recursive'].items():
      if isinstance(v, dict) and v.get('iterative') and v['depth'] + 1 < ignition:
        return 'explicit-iterative-shallower-than-ignition'
  return ss


def script_rows(world):
  last = [s for s in world.statements if s.final][-1]
  return last


def run_case_full(case, scratch):
  """Returns (violations, info dict)."""
  lrun.fresh_process()      # one case = the life of one (simulated) process
  program = case['program']
  info = {'fired': [], 'statements': 0, 'styles': {}, 'discard': None, 'checked': Counter(),
          'stale_present': False, 'offbyone': False}
  try:
    R = ref.evaluate(program)
  except OverflowError:
    info['discard'] = 'reference too large'
    return [], info
  info['offbyone'] = any(i['off_by_one_visible'] for i in R.info.values())
  dbpath = None
  if case['db'] == 'file':
    dbpath = os.path.join(scratch, 'rec-%s.db' % core.digest(case)[:12])
    if os.path.exists(dbpath):
      os.remove(dbpath)
  vs = []
  try:
    requested = case['requested']
    path = case['path']
    if case.get('stale_program') is not None and dbpath:
      sp = case['stale_program']
      sreq = [n for n in requested if n in gen.idb_names(sp)] or gen.idb_names(sp)[:1]
      try:
        res0, w0, exc0, comp0 = run_program(sp, sreq, 'concertina', dbpath, [])
        info['statements'] += len(w0.statements)
        if exc0 is None:
          # the earlier version is a program like any other: check it too
          try:
            R0 = ref.evaluate(sp)
            v0, _, _ = check_results(sp, R0, comp0, sreq, res0)
            for v in v0:
              v['message'] = '(earlier version) ' + v['message']
            vs.extend(v0)
          except OverflowError:
            pass
      except sqlworld.TooExpensive:
        pass
      except ProvenEmpty as e0:
        # the diagnostic concerns the EARLIER version: judge it against that version's reference
        try:
          R0 = ref.evaluate(sp)
          base0 = (e0.predicate or '').split('_')[0]
          if not (base0 in R0.rel and not R0.rel[base0]):
            vs.append({'class': 'rejected-valid-program', 'key': 'proven-empty',
                       'message': '(earlier version) compiler says %s is empty; reference T^(d+1) has %s' % (
                           e0.predicate, sorted(R0.rel.get(base0, {}))[:5])})
        except OverflowError:
          pass
      snap = sqlworld.snapshot_file(dbpath)
      info['stale_present'] = any('_ifr' in t or t in gen.idb_names(program) for t in snap)
    if case.get('faults') and dbpath:
      res1, w1, exc1, comp1 = run_program(program, requested, path, dbpath, case['faults'])
      info['statements'] += len(w1.statements)
      info['fired'] = [k for k, _ in w1.fired]
      if exc1 is None and res1 is not None:
        # the fault did not fire (or did no harm): a completed run is checked as such
        v1, _, _ = check_results(program, R, comp1, requested, convert(res1))
        vs.extend(v1)
      elif exc1 is not None and not w1.fired:
        vs.append({'class': 'engine-error', 'key': type(exc1).__name__,
                   'message': 'run failed without an injected fault: %r' % (exc1,)})
    res, w, exc, comp = run_program(program, requested, path, dbpath, [])
    info['statements'] += len(w.statements)
    if exc is not None:
      vs.append({'class': 'engine-error', 'key': type(exc).__name__,
                 'message': 'fault-free run failed: %s: %s' % (type(exc).__name__, str(exc)[:300])})
    else:
      v2, checked, styles = check_results(program, R, comp, requested, convert(res))
      info['checked'] = checked
      info['styles'] = {','.join(k): str(v) for k, v in styles.items()}
      vs.extend(v2)
  except sqlworld.TooExpensive:
    info['discard'] = 'resource budget exceeded (VM steps / memory / recursion limit)'
    return [], info
  except ProvenEmpty as e:
    # A diagnostic, not an answer: legitimate iff the reference agrees that the
    # predicate is empty within the bound.
    base = (e.predicate or '').split('_')[0]
    if base in R.rel and not R.rel[base]:
      info['discard'] = 'compiler diagnostic: predicate proven empty (reference agrees)'
      return [], info
    vs.append({'class': 'rejected-valid-program', 'key': 'proven-empty',
               'message': 'compiler says %s is empty; reference T^(d+1) has %s' % (
                   e.predicate, sorted(R.rel.get(base, {}))[:5])})
    return vs, info
  finally:
    if dbpath:
      for suffix in ('', '-journal', '-wal', '-shm'):
        if os.path.exists(dbpath + suffix):
          os.remove(dbpath + suffix)
  return vs, info


def convert(res):
  return res


CURATED = ['curated:case-variant-names-in-iterative-plan']


def curated_case(key):
  """A fixed input found by a sub-agent's exploration, not by the generator: two members of an
  iteratively unfolded component whose names differ only in letter case (their generation
  tables collide in SQLite). Reported as a known finding, see known_findings.json."""
  C, V, rule = gen.C, gen.V, gen.rule
  preds = [
      {'name': 'E', 'arity': 2, 'kind': 'edb', 'rows': [[i, i + 1] for i in range(60)], 'rules': []},
      {'name': 'AB', 'arity': 1, 'kind': 'distinct', 'rules': [
          rule([C(0)]), rule([V('y')], [['Ab', [V('x')], None], ['E', [V('x'), V('y')], None]])]},
      {'name': 'Ab', 'arity': 1, 'kind': 'distinct', 'rules': [
          rule([V('x')], [['AB', [V('x')], None]]), rule([C(100)])]}]
  program = {'preds': preds, 'ground': [], 'recursive': {'AB': 30}, 'attach': None, 'noise': []}
  return {'hashseed': 0, 'program': program, 'family': 'curated', 'main': 'AB', 'requested': ['AB'],
          'db': 'memory', 'schedule': 'fresh', 'path': 'concertina', 'stale_program': None, 'faults': [],
          'curated': key}


def run_case(case, scratch):
  vs, _ = run_case_full(case, scratch)
  if case.get('curated'):
    # a fixed input is one finding whatever shape its symptoms take
    return [{'class': 'curated', 'key': case['curated'], 'message': v['message']} for v in vs[:1]]
  return vs


# ------------------------------------------------------------------ shrinking

def shrink(case):
  if case.get('curated'):
    return
  if case.get('faults'):
    yield dict(case, faults=[], schedule='fresh')
  if case.get('stale_program') is not None:
    yield dict(case, stale_program=None, schedule='fresh')
  if case['db'] == 'file' and not case.get('faults') and case.get('stale_program') is None:
    yield dict(case, db='memory')
  if len(case['requested']) > 1:
    for i in range(len(case['requested'])):
      yield dict(case, requested=[case['requested'][i]])
  prog = case['program']
  fcs = prog.get('functors') or []
  if fcs and not any(f['name'] in case['requested'] for f in fcs):
    yield dict(case, program=dict(prog, functors=[]))
  idb = [p['name'] for p in prog['preds'] if p['kind'] != 'edb']
  # drop a downstream predicate nobody needs
  dep = gen.dependants(prog)
  held = {f['of'] for f in fcs}
  for n in idb:
    used = any(n in dep[m] for m in idb if m != n) or n in held
    if not used and n not in case['requested']:
      p2 = dict(prog, preds=[p for p in prog['preds'] if p['name'] != n])
      yield dict(case, program=p2)
  # drop EDB rows
  for pi, p in enumerate(prog['preds']):
    if p['kind'] == 'edb' and len(p['rows']) > 1:
      for rows in minimise.drop_chunks(p['rows'], 1):
        p2 = dict(p, rows=rows)
        yield dict(case, program=dict(prog, preds=[p2 if j == pi else q for j, q in enumerate(prog['preds'])]))
  # drop a rule
  for pi, p in enumerate(prog['preds']):
    if p['kind'] != 'edb' and len(p['rules']) > 1:
      for ri in range(len(p['rules'])):
        p2 = dict(p, rules=[x for j, x in enumerate(p['rules']) if j != ri])
        yield dict(case, program=dict(prog, preds=[p2 if j == pi else q for j, q in enumerate(prog['preds'])]))


# ------------------------------------------------------------------ batches

def plan(tier):
  if tier == 'quick':
    return {'batches': 48, 'timeout': 1500, 'cases': 9, 'wall_budget_s': 420}
  return {'batches': 640, 'timeout': 3000, 'cases': 24, 'wall_budget_s': 1500}


def depth_class(d):
  if d <= 5:
    return 'd<=5'
  if d <= 18:
    return 'd6-18'
  if d <= 20:
    return 'd19-20'
  if d <= 23:
    return 'd21-23'
  return 'd>23'


def run_batch(seed, batch, tier, scratch):
  pl = plan(tier)
  S = core.Summary()
  log = core.EventLog()
  hashseed = core.hash_seed_for(seed, PROPERTY, batch)
  for i in range(pl['cases']):
    r = core.rng(seed, PROPERTY, batch, i)
    case = gen_case(r, hashseed)
    vs, info = run_case_full(case, scratch)
    S.runs += 1
    if info['discard']:
      S.counters['discarded:' + info['discard']] += 1
      log.add('discard', core.digest(case)[:16], info['discard'])
      continue
    d = effective_depth(case['program'])
    styles = sorted(set(info['styles'].values())) or ['none']
    for s in styles:
      S.counters['style:%s|%s|%s' % (s, depth_class(d), case['schedule'])] += 1
    S.counters['family:' + case['family']] += 1
    S.counters['path:' + case['path']] += 1
    S.counters['db:' + case['db']] += 1
    for k, n in info['checked'].items():
      S.counters['oracle:' + k] += n
    for f in case.get('faults') or []:
      S.faults_configured[f['kind']] += 1
    for k in info['fired']:
      S.faults_fired[k] += 1
    if info['stale_present']:
      S.faults_configured['stale_generations'] += 1
      S.faults_fired['stale_generations'] += 1
      S.probes['run_started_on_stale_generation_tables'] += 1
    if len(case['requested']) > 1:
      S.probes['several_predicates_requested'] += 1
    if any(isinstance(v, dict) and v.get('iterative') for v in case['program']['recursive'].values()):
      S.probes['explicit_iterative'] += 1
    if 'iterative' in styles:
      S.probes['iterative_plan_executed'] += 1
    if case['program'].get('functors'):
      S.probes['functor_copy_of_recursive_predicate'] += 1
    if ref.nonmonotone(case['program']['preds']):
      S.probes['recursion_through_negation'] += 1
    S.sim_time += info['statements']
    if info['offbyone']:
      S.nontrivial.add(core.digest64([case['program'], case['requested'], case['schedule'], case['faults']]))
      S.probes['off_by_one_would_be_visible'] += 1
    S.states.add(core.digest64([case['family'], styles, d, case['schedule'], case['db'],
                                [f['kind'] for f in case.get('faults') or []], len(case['requested'])]))
    log.add('case', core.digest(case)[:16], styles, [v['class'] for v in vs], info['fired'])
    if len(S.samples) < 1 and 'iterative' in styles:
      S.samples.append({'program': gen.render(case['program']), 'requested': case['requested'],
                        'schedule': case['schedule'], 'db': case['db'], 'faults': case['faults'],
                        'styles': info['styles'], 'statements_executed': info['statements']})
    for v in vs:
      if len(S.violations) < 20:
        v = dict(v)
        v['case'] = case
        S.violations.append(v)
  if batch == 0:
    for key in CURATED:
      vs = run_case(curated_case(key), scratch)
      S.counters['curated_cases'] += 1
      log.add('curated', key, not vs)
      for v in vs[:1]:
        S.violations.append(dict(v, case=curated_case(key)))
  S.digests.append(log.hexdigest())
  return S


def evidence_meta(tier):
  return {
      'rule': ('Seeded recursive programs from sixteen families (counter, reachability, transitive closure '
               'linear/doubling, two-cycle, three-cycle that cannot be cut at one predicate, pure rings of 2-4 members, '
               'a member recursive through itself beside a mutual one, Min= shortest path plain and weighted, += walk counting, '
               'bag-valued path counting, recursion through a helper, random monotone programs over '
               'a finite domain, the win-move game through negation in two shapes), optionally a second recursive component, a functor copy '
               '`M2 := M(E: ETwo)` of a (usually recursive) predicate, @Ground on members) x depth in {1..5, 8 default, 19, 20, 21, 22, 23, 30, 41} with data sized '
               'around the depth x requested-predicate subsets x database kind (in-memory / file) x '
               'execution schedule (fresh, file holding the tables of an earlier version/depth, run '
               'aborted/interrupted/disk-full/locked at a seeded statement then re-run). A run is one case '
               '(up to three executions). Non-trivial = T^d != T^(d+1) != T^(d+2) for a recursive component '
               '(an off-by-one in depth would change the answer); distinct = SHA-256 of program+request+schedule+faults.'),
      'states_measure': 'distinct (family, unfolding styles, depth, schedule, db kind, fault kinds, #requested) tuples',
      'sim_time_unit': 'SQL statements executed by the engine (this engine has no clock)',
      'components': {
          'real': ['parser_py/parse.py', 'compiler/* (functors.RecursiveAnalysis/Unfold*, recursion_library, universe)',
                   'common/concertina_lib.py (ExecuteLogicaProgram, Concertina)', 'tools/run_in_terminal.py (SqlRunner, RunSQL)',
                   'common/sqlite3_logica.py (RunSqlScript for depth<=20 script path, UDFs)', 'SQLite 3.40 (real files in a scratch directory)'],
          'stub': ['sqlite3_logica.SqliteConnect -> fault-injecting, observing proxy around the real connection'],
          'not_run': ['diamond mode and stop signals (DuckDB only)', 'logica.py script path for iterative plans (returns the ignition prefix; documented TODO, not an observation point of C03)']},
      'expected_probes': ['run_started_on_stale_generation_tables', 'iterative_plan_executed',
                          'several_predicates_requested', 'off_by_one_would_be_visible', 'explicit_iterative', 'functor_copy_of_recursive_predicate', 'recursion_through_negation'],
      'assumptions': [
          'reference evaluator (lsim/ref.py) reads docs/learn/logica.md "Recursion" as: Jacobi iteration of all members of a recursive component from empty relations',
          'exactness is demanded for components recursive through one predicate only and for mutual recursion unfolded flat or iteratively; vertically unfolded mutual recursion and its monotone dependants are checked by containment T^(d+1) <= result <= lfp; aggregates over those, and non-monotone programs (negation) in that situation, are skipped (counted under oracle:skip)',
          'the reference gives `N := F(A: B)` its documented meaning by explicit copying (ref.expand_functors): N is F with every predicate F depends on, and that depends on A, replaced by a copy reading B',
          'cases whose SQL exceeds a VM-step budget are discarded and counted (SQLite re-evaluates CTEs per reference; performance is outside the property)',
          'crashes are modelled at statement boundaries plus real SQLite statement rollback; no torn pages',
      ],
  }
